#!/bin/bash
# Runs the thorough tier of the listed properties (default: all registered) sequentially with per-job progress in
# thorough_out/progress.log; results go to thorough_out/ (MDPV_OUT), so the quick-tier evidence stays in place.
cd "$(dirname "$0")/.."
ids="${@:-$(python3 -c "import json;print(' '.join(c['property_id'] for c in json.load(open('MANIFEST.json'))['checks']))")}"
mkdir -p thorough_out
for id in $ids; do
  t0=$(date +%s)
  out=$(MDPV_OUT=$PWD/thorough_out MDPV_PROGRESS=1 bin/check "$id" --tier thorough 2>>thorough_out/progress.log); rc=$?
  echo "$(echo "$out" | tail -1) rc=$rc elapsed=$(( $(date +%s) - t0 ))s" >> thorough_out/run.log
  echo "$out" | grep -E "^VIOLATION|^UNCONFIRMED|^HARNESS|^INCONCLUSIVE|^VACUOUS" | head -5 >> thorough_out/run.log
done

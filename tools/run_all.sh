#!/bin/bash
# Runs every registered check (tier from $1, default quick) sequentially and prints one line per property.
tier="${1:-quick}"
cd "$(dirname "$0")/.."
rc_all=0
for id in $(python3 -c "import json;print(' '.join(c['property_id'] for c in json.load(open('MANIFEST.json'))['checks']))"); do
  out=$(bin/check "$id" --tier "$tier" 2>&1); rc=$?
  echo "$(echo "$out" | tail -1) rc=$rc"
  echo "$out" | grep -E "^VIOLATION|^UNCONFIRMED|^HARNESS|^INCONCLUSIVE|^VACUOUS" | head -5
  [ $rc -ne 0 ] && rc_all=1
done
exit $rc_all

#!/bin/bash
# usage: tools/regress.sh <list-file> [parallel]     list-file lines: <patch-file> <check-id> [<check-id>...]
# Self-test of the machinery: every listed change is applied to its own scratch copy of /repo/src (under $TMPDIR,
# removed afterwards) and the named quick checks are run against that copy (MDPV_SRC), several changes in parallel.
# Prints one line per (change, check): rc=1 means detected.  /repo itself is never touched.
set -u
list=$(realpath "$1"); par=${2:-4}
ROOT="$(cd "$(dirname "${BASH_SOURCE[0]}")/.." && pwd)"
work=$(mktemp -d "${TMPDIR:-/tmp}/mdpv-regress.XXXXXX")
trap 'rm -rf "$work"' EXIT
one() {
  line="$1"; set -- $line; patch=$(cd "$ROOT" && realpath "$1"); shift
  tag=$(echo "$patch" | md5sum | cut -c1-8)
  d="$work/$tag"; mkdir -p "$d/out"
  git -C /repo archive HEAD src | tar -x -C "$d" || { echo "$patch :: archive failed"; return; }
  (cd "$d" && git init -q . 2>/dev/null && git apply "$patch") || { echo "$patch :: patch does not apply"; rm -rf "$d"; return; }
  for p in "$@"; do
    out=$(cd "$ROOT" && MDPV_SRC="$d/src" MDPV_OUT="$d/out" MDPV_WORKERS=${WORKERS:-6} bin/check "$p" --tier "${TIER:-quick}" 2>&1); rc=$?
    echo "$(basename $(dirname "$patch"))/$(basename "$patch") $p rc=$rc :: $(echo "$out" | grep -E "^VIOLATION|^KNOWN|^INCONCLUSIVE|^HARNESS|^UNCONFIRMED" | grep -v "^KNOWN" | head -1 | cut -c1-160) :: $(echo "$out" | tail -1 | cut -c1-200)"
  done
  rm -rf "$d"
}
export -f one; export ROOT work
grep -v '^#' "$list" | grep -v '^$' | xargs -P "$par" -I{} bash -c 'one "{}"'

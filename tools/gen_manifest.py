#!/usr/bin/env python3
"""Regenerates /verif/MANIFEST.json from the table below (kept in one place so it stays valid)."""
import json
from pathlib import Path

ROOT = Path(__file__).resolve().parent.parent
PROPS = [json.loads(l)["id"] for l in (ROOT / "properties.jsonl").read_text().splitlines() if l.strip()]

# id -> (technique, level text, level note, design ref)
TRUST = "floats as reals (exact arithmetic), int32 as integers; sizes enumerated (evidence.bounds); stubs listed in evidence.assumptions; z3 5.1 trusted; counterexamples replayed on the real code before being reported"
CLAIMED = {
    "C01": ("real solve(1) under a z3-valued JAX trace from an arbitrary pre-state; optimality gap bounded by SMT with V_pi and V* as fixed-point unknowns, all successor structures substituted",
            "For each enumerated shape, every deterministic successor structure (grid-stochastic for two events), every real V, R, epsilon (gamma symbolic for S=2, grid for S=3): whenever the real VI / PI / semi-async loop reports convergence, z3 shows the documented a-priori bound on V*-V_pi (and on |values - V*| / |values - V_pi| under max_diff). Bounded symbolic verification.",
            TRUST, "DESIGN.md section 3, C01"),
    "C02": ("bounded symbolic execution of the real sweep/policy kernels under a z3-valued JAX trace; per-state SMT equality with an independent Bellman backup",
            "For every enumerated shape/batch/device configuration, z3 shows that for ALL real-valued V, R, P, gamma and all successor tables the real pmapped sweep equals max_a sum_e P(R+gamma V[succ]) and the extracted policy is a greedy action from the action space; monotonicity, shift and contraction are shown on the code's own terms.",
            TRUST, "DESIGN.md section 3, C02"),
    "C08": ("real solve() loops of all five solvers executed under a re-execution path explorer with the sweep abstracted as an uninterpreted function; SMT validities over the recorded terms",
            "For all gamma in [0,1], epsilon>0, initial values and every convergence outcome pattern within k<=3(4) sweeps: threshold equals the documented formula, at most k sweeps, stop exactly at the first sweep below the documented measure, iteration == sweeps, values == U^n(V0), solve(k1);solve(k2) == solve(k1+k2). Bounded by k and S=2 (sweep content is C02).",
            TRUST, "DESIGN.md section 3, C08"),
    "C14": ("real transition and index function under the z3-valued trace on bounded symbolic state/action/event vectors; LIA queries per parameterisation",
            "For each enumerated parameterisation of the four shipped problems, z3 shows for ALL listed states, actions and positive-probability events that every successor component is in range and that the real state_to_index returns the successor's row-major rank (no clipping); sizes, duplicates and row indices are checked on the concrete arrays.",
            TRUST, "DESIGN.md section 3, C14"),
    "C15": ("differential symbolic execution: real transition() vs a scalar reference written from the docstrings, unbounded symbolic stock/demand/order integers and symbolic cost coefficients",
            "For each useful life / lead time / issuing policy, z3 shows for ALL non-negative integer states, actions, events and ALL real cost coefficients that successor and reward equal the documented scalar model and that units are conserved (issued/expired extracted from the real reward by unit cost vectors).",
            TRUST, "DESIGN.md section 3, C15"),
    "C17": ("real matrix builder executed eagerly under the z3-valued trace (scatter-add with symbolic indices), both host paths explored; entrywise SMT identities",
            "For each enumerated shape and ALL successor tables, probabilities, rewards and tolerances in [0,1): every P and R entry equals the reference accumulation, rows sum to one, matrix state-action values equal the functional ones, the error path is taken iff the worst deviation exceeds the tolerance and names an argmax pair.",
            TRUST, "DESIGN.md section 3, C17"),
    "C18": ("real BatchProcessor constructor on unbounded symbolic integers under the path explorer; prepare/unbatch under the z3-valued trace on arrays of symbols",
            "Arithmetic facts (batch size bounds, slot count, padding, device count, batch_shape) hold for ALL n_states>=1, max_batch_size>=1 and devices 1..8 (no size bound needed by the solver); routing (original order, padding only at the end, lossless un-batching with trailing dims) shown for an enumerated box of sizes.",
            TRUST, "DESIGN.md section 3, C18"),
    "C19": ("real index_fn under the z3-valued trace on an unbounded symbolic vector, boxes enumerated; LIA queries",
            "For every enumerated box (dims 1..3(4), bounds -2..3, zero width included) and ALL integer vectors: in-box vectors map to their own row, every vector maps to the row of the coordinate-wise nearest box point; the listed space is the row-major enumeration.",
            TRUST, "DESIGN.md section 3, C19"),
}
NOT_YET = "check not built yet in this session (work in progress; see DESIGN.md section 3 for the planned encoding)"
NA = {
    "C11": "crash atomicity lives inside Orbax/tensorstore/the OS (temporary directories, renames, background commit thread); no symbolic engine here reaches that code and a model of it would be a model of Orbax, not of mdpax. The mdpax-side obligations it presupposes are decided under C09/C10/C12 (DESIGN.md section 4).",
}


def main():
    checks = []
    na = []
    for pid in PROPS:
        if pid in CLAIMED:
            tech, text, note, ref = CLAIMED[pid]
            checks.append({
                "property_id": pid,
                "quick_cmd": f"bin/check {pid} --tier quick",
                "thorough_cmd": f"bin/check {pid} --tier thorough",
                "evidence_file": f"/verif/evidence/{pid}.json",
                "replay_cmd_template": f"bin/check {pid} --replay {{path}}",
                "engine": "mdpv",
                "level_claimed": {"category": "model_checking", "text": text, "design_ref": ref},
                "level_note": note,
                "technique": tech,
            })
        else:
            na.append({"property_id": pid, "reason": NA.get(pid, NOT_YET)})
    m = {
        "version": 1,
        "setup_cmd": "bin/setup",
        "hooks": {
            "guard": "MDPAX_VERIF",
            "enable": "no source hooks: checks import /repo/src (editable install) and observe everything through a custom JAX trace and module-global stubs; MDPAX_VERIF=1 is exported by bin/check for completeness",
            "baseline_off_cmd": "cd /repo && /venv/bin/python -m pytest -ra -q -p no:cacheprovider --timeout=900 --continue-on-collection-errors",
            "source_commits": [],
            "add_only": True,
        },
        "engines": [{
            "name": "mdpv",
            "path": "/verif/mdpv",
            "serves_properties": sorted(CLAIMED),
            "kind_free_text": "z3-valued JAX Trace (SymTrace) executing the unmodified mdpax code + re-execution path explorer for host-side branches + per-output-element SMT obligations (z3 5.1), counterexamples replayed on the real code",
        }],
        "checks": checks,
        "not_applicable": na,
        "notes": "Exit codes of every check: 0 held / 1 VIOLATION (replayed on the real code) / 2 inconclusive or harness error (never reported as success). known_findings.json lists recorded findings.",
    }
    (ROOT / "MANIFEST.json").write_text(json.dumps(m, indent=1) + "\n")


if __name__ == "__main__":
    main()

#!/usr/bin/env python3
"""Regenerates /verif/MANIFEST.json from the table below (kept in one place so it stays valid)."""
import json
from pathlib import Path

ROOT = Path(__file__).resolve().parent.parent
PROPS = [json.loads(l)["id"] for l in (ROOT / "properties.jsonl").read_text().splitlines() if l.strip()]

# id -> (technique, level text, level note, design ref)
TRUST = "floats as reals (exact arithmetic), int32 as integers; sizes enumerated (evidence.bounds); stubs listed in evidence.assumptions; z3 5.1 trusted; counterexamples replayed on the real code before being reported"
CLAIMED = {
    "C01": ("real solve(1) under a z3-valued JAX trace from an arbitrary pre-state; optimality gap bounded by SMT with V_pi and V* as fixed-point unknowns, all successor structures substituted",
            "For each enumerated shape, every deterministic successor structure (grid-stochastic for two events), every real V, R, epsilon (gamma symbolic for S=2, grid for S=3): whenever the real VI / PI / semi-async loop reports convergence, z3 shows the documented a-priori bound on V*-V_pi (and on |values - V*| / |values - V_pi| under max_diff). Bounded symbolic verification.",
            TRUST, "DESIGN.md section 3, C01"),
    "C02": ("bounded symbolic execution of the real sweep/policy kernels under a z3-valued JAX trace; per-state SMT equality with an independent Bellman backup",
            "For every enumerated shape/batch/device configuration, z3 shows that for ALL real-valued V, R, P, gamma and all successor tables the real pmapped sweep equals max_a sum_e P(R+gamma V[succ]) and the extracted policy is a greedy action from the action space; monotonicity, shift and contraction are shown on the code's own terms; special input classes (300 actions, non-integer states, integer-typed initial values, a second sweep with another discount factor) and the real solve(k) returning a policy greedy for the values it returns are decided the same way.",
            TRUST, "DESIGN.md section 3, C02"),
    "C03": ("per-state SMT equalities of every per-iteration function of every solver with a partition-free reference over the (n_states, batch size, devices, offset) box + syntactic support check on the z3 terms; concrete multi-device runs of the real solvers",
            "Two per-iteration functions that each equal the same reference for all inputs equal each other, so trajectories agree by induction: shown for the VI sweep, policy extraction, initial values and PI's evaluation step for ALL V, R, P, gamma, successor tables on every enumerated partition (1-2 devices quick, up to 8 thorough), with no padded-slot symbol in any real state's term and all outputs of length n_states; the span / max_diff measures equal their whole-vector definition on every partition; the five real solvers additionally run on the emulated devices (this leg found the no-padding multi-device crash, now fixed).",
            TRUST, "DESIGN.md section 3, C03"),
    "C04": ("real RVI solve(1) under the z3-valued trace from the real initial state and from any invariant-satisfying state; optimal gain/bias and policy gain as linear fixed-point unknowns; all unichain-aperiodic structures substituted",
            "For every enumerated unichain aperiodic structure and ALL rewards, values, epsilon: on the reported-convergence path |gain - g*| <= eps, g* - gain(policy) <= eps and the optimality-equation residual of the returned relative values is <= eps; the invariant gain == values[-1] is established by every iteration.",
            TRUST, "DESIGN.md section 3, C04"),
    "C05": ("real PI methods under the z3-valued trace / path explorer: evaluation step vs T_pi, evaluation accuracy with V_pi as linear unknowns, break-iff-no-component-changed with symbolic policies, greedy extraction, initial policy",
            "For ALL policies, values, tables (enumerated shapes): one evaluation sweep is T_pi; a converged evaluation is within eps/gamma of V_pi (all 16 structures, max_eval_iter 1..3, reset on/off); solve stops early iff no component of any state's action vector changed (action dim 1 and 2); the returned policy is greedy for the returned values (every evaluation call an independent symbol; linear variant with concrete probabilities for tolerance-type comparisons); the first evaluated policy is the problem's or the immediate-reward maximiser.",
            TRUST, "DESIGN.md section 3, C05"),
    "C06": ("real semi-async sweep under the z3-valued trace vs a block Gauss-Seidel reference over the real partition and permutation (PRNG stub enumerating permutations, both duplicate-scatter orders)",
            "For ALL V, R, P, gamma, successor tables on each enumerated (n_states<=4(5), batch size, devices, permutation): every state's new value is the Bellman backup of the carried values in the documented order; every state sits in exactly one non-padded slot; fixed points coincide with the synchronous backup's; seed determinism and fresh sub-keys are checked on the real PRNG.",
            TRUST, "DESIGN.md section 3, C06"),
    "C07": ("real periodic solve loop under the path explorer with an np shim for the host-side history buffer; code's measure vs documented measure as z3 terms; average-reward claim with AROE unknowns over all unichain structures",
            "For periods 1..3, gamma symbolic in (0,1) or 1, any iterates (fresh symbols, buffer wrapping twice): the measure equals the documented one at every n, inf before a full period, stop iff measure < eps, values/buffer/index as documented; one real sweep equals the Bellman backup; for gamma=1, period 2 on every unichain deterministic structure (periodic ones included) (V_n-V_(n-2))/2 is within eps/2 of the optimal gain.",
            TRUST, "DESIGN.md section 3, C07"),
    "C09": ("real solve/save/restore/load_checkpoint under the path explorer with a contract model of Orbax (validated against the real library on disk); final states compared as z3 terms",
            "For all five solvers, both routes, interruption points and chains within K<=4(5), f, m, sync/async: on every path where the interrupted calls stopped at their limits the resumed run's values, policy, iteration, gain, history and index equal those of one uninterrupted run without checkpointing, for ALL initial values and sweep results (uninterpreted sweep); checkpointing on/off never changes results.",
            TRUST + "; Orbax model validated on 48 schedules against the real library", "DESIGN.md section 3, C09"),
    "C10": ("state completeness by saving/restoring fresh symbols through the Orbax contract model; step selection over enumerated save histories; overrides; error paths and bitwise round trips on the real Orbax",
            "Every documented runtime field comes back as the identical term through restore() and load_checkpoint() (known finding: VI-family solvers drop a stored policy), the default step is the latest and an explicit step is honoured for every save history (steps<=4, length<=3), overrides leave the state and the original directory untouched and govern later saves, documented errors are raised; 5 solvers x 4 shipped problems round-trip bitwise on the real Orbax, also in single precision (same process and fresh processes), with reused configuration objects / directories and restores interleaved with saves.",
            TRUST + "; configuration equality through YAML is concrete evaluation", "DESIGN.md section 3, C10"),
    "C12": ("real solve()/save() of all five solvers under the path explorer with the Orbax contract model; retained set, labels and contents checked per host path",
            "For f in 1..3, m in 1..3, sync/async, call sequences with optional restore into the same/new directory and every convergence pattern: the retained steps are exactly the m most recent of {multiples of f} U {last iteration of each call}, each labelled with and containing the state of its iteration (as terms), config.yaml present iff reconstructible; f=0 creates nothing; a sweep interrupted by KeyboardInterrupt leaves only completed, correctly labelled iterations on disk; concrete legs for non-finite values and instance/config combinations.",
            TRUST + "; Orbax model validated against the real library", "DESIGN.md section 3, C12"),
    "C13": ("real probability-table construction and random_event_probability executed on symbolic special-function values (contract stubs); linear/polynomial identities and sign conditions by z3",
            "For ALL values of the continuous parameters (through the special functions' contracts) and enumerated sizes: every event probability >= 0 and the sum over events == 1 for Forest, De Moor, Mirjalili; for Hendrix sum + P(characterised truncation region) == 1 and no mass is duplicated (the stated sum == 1 fails: known finding).",
            TRUST + "; special functions trusted to satisfy their contracts", "DESIGN.md section 3, C13"),
    "C16": ("composition check: stubs record the parameters/evaluation points of the special functions; the real code's probabilities are compared as terms with the documented formulas (brute force for Hendrix)",
            "Gamma(shape, rate) with shape/rate == mean and shape*CoV^2 == 1, cdf differences at half-integers with the censored tail; NB(n, 1-n/(n+delta)) censored x multinomial with reversed logits [0, c0+c1*order]; Hendrix four-case decomposition == brute-force joint distribution over the truncated region for every stock pair and event; Hendrix initial value == expected revenue; Forest table.",
            TRUST + "; numerical values of the special functions are outside the claim", "DESIGN.md section 3, C16"),
    "C20": ("validators and threshold/format set-up executed on symbolic host scalars under the path explorer (accepted <=> documented domain; no exception for any gamma in [0,1], eps in [1e-15,1e10)); routes and dtypes by concrete runs in fresh processes",
            "Every validator accepts exactly the documented domain and rejects with ValueError/TypeError; construction and a solve iteration with all progress messages complete for ALL gamma in [0,1] and epsilon over 25 decades for all five solvers; the three construction routes give identically configured, identically behaving solvers; gamma and values are float64 in both construction orders (four defects found here were fixed).",
            TRUST + "; route equivalence and dtypes are concrete evaluations, not SMT claims", "DESIGN.md section 3, C20"),
    "C08": ("real solve() loops of all five solvers executed under a re-execution path explorer with the sweep abstracted as an uninterpreted function; SMT validities over the recorded terms",
            "For all gamma in [0,1], epsilon>0, initial values and every convergence outcome pattern within k<=3(4) sweeps: threshold equals the documented formula, at most k sweeps, stop exactly at the first sweep below the documented measure, iteration == sweeps, values == U^n(V0), solve(k1);solve(k2) == solve(k1+k2). Bounded by k and S=2 (sweep content is C02).",
            TRUST, "DESIGN.md section 3, C08"),
    "C14": ("real transition and index function under the z3-valued trace on bounded symbolic state/action/event vectors; LIA queries per parameterisation",
            "For each enumerated parameterisation of the four shipped problems, z3 shows for ALL listed states, actions and positive-probability events that every successor component is in range and that the real state_to_index returns the successor's row-major rank (no clipping); sizes, duplicates and row indices are checked on the concrete arrays; the same for instances created after sibling instances in the same process and for bounds beyond 8 bits.",
            TRUST, "DESIGN.md section 3, C14"),
    "C15": ("differential symbolic execution: real transition() vs a scalar reference written from the docstrings, unbounded symbolic stock/demand/order integers and symbolic cost coefficients",
            "For each useful life / lead time / issuing policy, z3 shows for ALL non-negative integer states, actions, events and ALL real cost coefficients that successor and reward equal the documented scalar model and that units are conserved (issued/expired extracted from the real reward by unit cost vectors).",
            TRUST, "DESIGN.md section 3, C15"),
    "C17": ("real matrix builder executed eagerly under the z3-valued trace (scatter-add with symbolic indices), both host paths explored; entrywise SMT identities",
            "For each enumerated shape and ALL successor tables, probabilities, rewards and tolerances in [0,1): every P and R entry equals the reference accumulation, rows sum to one, matrix state-action values equal the functional ones, the error path is taken iff the worst deviation exceeds the tolerance and names an argmax pair.",
            TRUST, "DESIGN.md section 3, C17"),
    "C18": ("real BatchProcessor constructor on unbounded symbolic integers under the path explorer; prepare/unbatch under the z3-valued trace on arrays of symbols",
            "Arithmetic facts (batch size bounds, slot count, padding, device count, batch_shape) hold for ALL n_states>=1, max_batch_size>=1 and devices 1..8 (no size bound needed by the solver); routing (original order, padding only at the end, lossless un-batching with trailing dims) shown for an enumerated box of sizes.",
            TRUST, "DESIGN.md section 3, C18"),
    "C19": ("real index_fn under the z3-valued trace on an unbounded symbolic vector, boxes enumerated; LIA queries",
            "For every enumerated box (dims 1..3(4), bounds -2..3, zero width included) and ALL integer vectors: in-box vectors map to their own row, every vector maps to the row of the coordinate-wise nearest box point; the listed space is the row-major enumeration.",
            TRUST, "DESIGN.md section 3, C19"),
}
NOT_YET = "check not built yet in this session (work in progress; see DESIGN.md section 3 for the planned encoding)"
NA = {
    "C11": "crash atomicity lives inside Orbax/tensorstore/the OS (temporary directories, renames, background commit thread); no symbolic engine here reaches that code and a model of it would be a model of Orbax, not of mdpax. The mdpax-side obligations it presupposes are decided under C09/C10/C12 (DESIGN.md section 4).",
}


def main():
    checks = []
    na = []
    for pid in PROPS:
        if pid in CLAIMED:
            tech, text, note, ref = CLAIMED[pid]
            checks.append({
                "property_id": pid,
                "quick_cmd": f"bin/check {pid} --tier quick",
                "thorough_cmd": f"bin/check {pid} --tier thorough",
                "evidence_file": f"/verif/evidence/{pid}.json",
                "replay_cmd_template": f"bin/check {pid} --replay {{path}}",
                "engine": "mdpv",
                "level_claimed": {"category": "model_checking", "text": text, "design_ref": ref},
                "level_note": note,
                "technique": tech,
            })
        else:
            na.append({"property_id": pid, "reason": NA.get(pid, NOT_YET)})
    m = {
        "version": 1,
        "setup_cmd": "bin/setup",
        "hooks": {
            "guard": "MDPAX_VERIF",
            "enable": "no source hooks: checks import /repo/src (editable install) and observe everything through a custom JAX trace and module-global stubs; MDPAX_VERIF=1 is exported by bin/check for completeness",
            "baseline_off_cmd": "cd /repo && /venv/bin/python -m pytest -ra -q -p no:cacheprovider --timeout=900 --continue-on-collection-errors",
            "source_commits": [],
            "add_only": True,
        },
        "engines": [{
            "name": "mdpv",
            "path": "/verif/mdpv",
            "serves_properties": sorted(CLAIMED),
            "kind_free_text": "z3-valued JAX Trace (SymTrace) executing the unmodified mdpax code + re-execution path explorer for host-side branches + per-output-element SMT obligations (z3 5.1), counterexamples replayed on the real code",
        }],
        "checks": checks,
        "not_applicable": na,
        "notes": "Exit codes of every check: 0 held / 1 VIOLATION (replayed on the real code) / 2 inconclusive or harness error (never reported as success). known_findings.json lists recorded findings.",
    }
    (ROOT / "MANIFEST.json").write_text(json.dumps(m, indent=1) + "\n")


if __name__ == "__main__":
    main()

#!/usr/bin/env python3
"""Regenerates /verif/MANIFEST.json from the table below (kept in one place so it stays valid)."""
import json
from pathlib import Path

ROOT = Path(__file__).resolve().parent.parent
PROPS = [json.loads(l)["id"] for l in (ROOT / "properties.jsonl").read_text().splitlines() if l.strip()]

# id -> (technique, level text, level note, design ref)
CLAIMED = {
    "C02": ("bounded symbolic execution of the real sweep/policy kernels under a z3-valued JAX trace; per-state SMT equality with an independent Bellman backup",
            "For every enumerated shape/batch/device configuration, z3 shows that for ALL real-valued V, R, P, gamma and all successor tables the real pmapped sweep equals max_a sum_e P(R+gamma V[succ]) and the extracted policy is a greedy action from the action space; monotonicity, shift and contraction are shown on the code's own terms. Bounded by shape, exact arithmetic.",
            "floats as reals; shapes enumerated (see evidence.bounds); JAX pmap lowering (jit+shard_map) interpreted shard by shard; z3 is trusted",
            "DESIGN.md section 3, C02"),
}
NOT_YET = "check not built yet in this session (work in progress; see DESIGN.md section 3 for the planned encoding)"
NA = {
    "C11": "crash atomicity lives inside Orbax/tensorstore/the OS (temporary directories, renames, background commit thread); no symbolic engine here reaches that code and a model of it would be a model of Orbax, not of mdpax. The mdpax-side obligations it presupposes are decided under C09/C10/C12 (DESIGN.md section 4).",
}


def main():
    checks = []
    na = []
    for pid in PROPS:
        if pid in CLAIMED:
            tech, text, note, ref = CLAIMED[pid]
            checks.append({
                "property_id": pid,
                "quick_cmd": f"bin/check {pid} --tier quick",
                "thorough_cmd": f"bin/check {pid} --tier thorough",
                "evidence_file": f"/verif/evidence/{pid}.json",
                "replay_cmd_template": f"bin/check {pid} --replay {{path}}",
                "engine": "mdpv",
                "level_claimed": {"category": "model_checking", "text": text, "design_ref": ref},
                "level_note": note,
                "technique": tech,
            })
        else:
            na.append({"property_id": pid, "reason": NA.get(pid, NOT_YET)})
    m = {
        "version": 1,
        "setup_cmd": "bin/setup",
        "hooks": {
            "guard": "MDPAX_VERIF",
            "enable": "no source hooks: checks import /repo/src (editable install) and observe everything through a custom JAX trace and module-global stubs; MDPAX_VERIF=1 is exported by bin/check for completeness",
            "baseline_off_cmd": "cd /repo && /venv/bin/python -m pytest -ra -q -p no:cacheprovider --timeout=900 --continue-on-collection-errors",
            "source_commits": [],
            "add_only": True,
        },
        "engines": [{
            "name": "mdpv",
            "path": "/verif/mdpv",
            "serves_properties": sorted(CLAIMED),
            "kind_free_text": "z3-valued JAX Trace (SymTrace) executing the unmodified mdpax code + re-execution path explorer for host-side branches + per-output-element SMT obligations (z3 5.1), counterexamples replayed on the real code",
        }],
        "checks": checks,
        "not_applicable": na,
        "notes": "Exit codes of every check: 0 held / 1 VIOLATION (replayed on the real code) / 2 inconclusive or harness error (never reported as success). known_findings.json lists recorded findings.",
    }
    (ROOT / "MANIFEST.json").write_text(json.dumps(m, indent=1) + "\n")


if __name__ == "__main__":
    main()

#!/bin/bash
# usage: tools/mutant.sh <patch-file> <prop> [<prop>...]   -- applies a patch to /repo, runs the quick
# checks, reverts.  Prints the exit code per property (1 = detected).
set -u
patch="$(realpath "$1")"; shift
cd /repo || exit 9
if ! git diff --quiet; then echo "/repo not clean"; exit 9; fi
git apply "$patch" || { echo "patch does not apply"; exit 9; }
trap 'git -C /repo checkout -- . ' EXIT
for p in "$@"; do
  out=$(cd /verif && bin/check "$p" --tier "${TIER:-quick}" 2>&1); rc=$?
  echo "== $p rc=$rc :: $(echo "$out" | grep -E "^VIOLATION|^KNOWN|^INCONCLUSIVE|^HARNESS|^UNCONFIRMED" | head -3 | tr '\n' '|')"
  echo "$out" | tail -1
done

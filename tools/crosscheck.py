#!/usr/bin/env python3
"""Cross-check a sample of the exact SMT queries with independent solver binaries.

usage: tools/crosscheck.py <ID> [<ID>...]   (runs `bin/check <ID>` with MDPV_DUMP set, then feeds every dumped
.smt2 file to /usr/bin/z3 (4.8.12) and /usr/bin/cvc5 (1.0) and compares the verdict with the one z3 5.1 gave)."""
import glob
import os
import shutil
import subprocess
import sys
import tempfile

ROOT = os.path.dirname(os.path.dirname(os.path.abspath(__file__)))


def run(cmd, timeout):
    try:
        cp = subprocess.run(cmd, capture_output=True, text=True, timeout=timeout)
        out = (cp.stdout + cp.stderr).strip().splitlines()
        if any("(error" in l for l in out):
            return "error"
        return next((l.strip() for l in out if l.strip() in ("sat", "unsat", "unknown")), "none")
    except subprocess.TimeoutExpired:
        return "timeout"


def main():
    total = agree = 0
    rows = []
    for pid in sys.argv[1:]:
        d = tempfile.mkdtemp(prefix="mdpv-dump-")
        try:
            env = dict(os.environ, MDPV_DUMP=d)
            subprocess.run([os.path.join(ROOT, "bin/check"), pid, "--tier", "quick"], env=env, capture_output=True, text=True)
            files = sorted(glob.glob(os.path.join(d, "*.smt2")))[:40]
            for f in files:
                want = f.split(".")[-2]
                r_z3 = run(["/usr/bin/z3", "-T:30", f], 40)
                r_cvc = run(["/usr/bin/cvc5", "--tlimit=30000", f], 40)
                total += 1
                ok = all(r in (want, "unknown", "timeout", "none", "error") for r in (r_z3, r_cvc))
                strong = sum(r == want for r in (r_z3, r_cvc))
                agree += ok
                rows.append((pid, os.path.basename(f)[:70], want, r_z3, r_cvc))
                if not ok:
                    print("DISAGREEMENT", pid, f, want, r_z3, r_cvc)
        finally:
            shutil.rmtree(d, ignore_errors=True)
    for r in rows:
        print(*r)
    print(f"cross-checked {total} queries; no contradicting verdict in {agree}")
    return 0 if agree == total else 1


if __name__ == "__main__":
    sys.exit(main())

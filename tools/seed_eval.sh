#!/bin/bash
# usage: tools/seed_eval.sh <ID> <n> <check-id> [<check-id>...]
# 1. confirms in the sub-agent's worktree that the demo passes on the clean tree and fails with the patch,
# 2. applies the patch to /repo, runs the named quick checks, reverts.
set -u
id=$1; n=$2; shift 2
wt=/tmp/wt/$id; sd=$wt/_seed/$n; [ -d "$sd" ] || sd=/verif/seeded/$id-$n
[ -f $sd/patch.diff ] || { echo "no patch at $sd"; exit 9; }
cd $wt && git checkout -q -- . 
run() { (cd $wt && PYTHONPATH=$wt/src JAX_PLATFORMS=cpu timeout 1500 /venv/bin/python $sd/demo.py > /tmp/seed_demo.out 2>&1; echo $?); }
clean=$(run)
git -C $wt apply $sd/patch.diff || { echo "patch does not apply in worktree"; exit 9; }
patched=$(run); tail -2 /tmp/seed_demo.out | cut -c1-300
git -C $wt checkout -q -- .
echo "demo: clean rc=$clean patched rc=$patched"
cd /repo && git diff --quiet || { echo "/repo dirty"; exit 9; }
git apply $sd/patch.diff || { echo "patch does not apply to /repo"; exit 9; }
trap 'git -C /repo checkout -q -- .' EXIT
for p in "$@"; do
  out=$(cd /verif && bin/check "$p" --tier "${TIER:-quick}" 2>&1); rc=$?
  echo "== $p rc=$rc :: $(echo "$out" | grep -E "^VIOLATION|^  obligation" | head -2 | cut -c1-260 | tr '\n' '|')"
  echo "$out" | tail -1
done

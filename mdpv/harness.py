"""Obligation manager used inside a job: every claim is `assumptions |= goal`, decided by one z3
query (assumptions AND NOT goal).  unsat = holds within the job's bound; sat = counterexample (the
model is handed to `cex` to be turned into concrete inputs for replay); unknown = inconclusive.
"""
from __future__ import annotations

import time
from fractions import Fraction

import z3

from . import zx


def jsonable(v):
    if isinstance(v, Fraction):
        return {"q": [v.numerator, v.denominator]}
    if isinstance(v, (bool, int, str, float)) or v is None:
        return v
    if isinstance(v, (list, tuple)):
        return [jsonable(x) for x in v]
    if isinstance(v, dict):
        return {str(k): jsonable(x) for k, x in v.items()}
    import numpy as np
    if isinstance(v, np.ndarray):
        return jsonable(v.tolist())
    if isinstance(v, (np.integer,)):
        return int(v)
    if isinstance(v, (np.floating,)):
        return float(v)
    if zx.is_z(v):
        return str(v)
    return str(v)


def unq(v):
    """inverse of jsonable for rationals (recursively)."""
    if isinstance(v, dict) and set(v) == {"q"}:
        return Fraction(v["q"][0], v["q"][1])
    if isinstance(v, dict):
        return {k: unq(x) for k, x in v.items()}
    if isinstance(v, list):
        return [unq(x) for x in v]
    return v


def tofloat(v):
    v = unq(v)
    if isinstance(v, list):
        return [tofloat(x) for x in v]
    if isinstance(v, Fraction):
        return float(v)
    return v


def exc_origin(exc):
    """'mdpax' if the deepest frame that belongs to either the code under test or the harness is in /repo,
    'harness' if it is in /verif (then the exception is a harness bug, not an outcome of the code under test)."""
    import traceback
    last = None
    for fr in traceback.extract_tb(exc.__traceback__):
        fn = fr.filename
        if "/mdpv/" in fn:
            last = "harness"
        elif "/mdpax/" in fn or fn.startswith("/repo/"):
            last = "mdpax"
    return last or "harness"


def has_real_order(t, _depth=0):
    if not z3.is_app(t) or _depth > 40:
        return False
    if t.decl().kind() in (z3.Z3_OP_LE, z3.Z3_OP_LT, z3.Z3_OP_GE, z3.Z3_OP_GT) and t.children()[0].sort() == z3.RealSort():
        return True
    return z3.is_bool(t) and any(has_real_order(c, _depth + 1) for c in t.children())


def _slack(t, rel, positive):
    """strengthen the real-valued order atoms of a path condition by a relative slack (equalities, integer atoms and
    anything unrecognised stay as they are); `positive` is the polarity of t"""
    if not z3.is_bool(t) or not z3.is_app(t):
        return t
    k = t.decl().kind()
    ch = t.children()
    if k == z3.Z3_OP_NOT:
        return z3.Not(_slack(ch[0], rel, not positive))
    if k in (z3.Z3_OP_AND, z3.Z3_OP_OR):
        parts = [_slack(c, rel, positive) for c in ch]
        return z3.And(*parts) if k == z3.Z3_OP_AND else z3.Or(*parts)
    if k in (z3.Z3_OP_LE, z3.Z3_OP_LT, z3.Z3_OP_GE, z3.Z3_OP_GT) and ch[0].sort() == z3.RealSort():
        a, b = ch
        if k in (z3.Z3_OP_GE, z3.Z3_OP_GT):
            a, b = b, a          # a <= b  or  a < b
        ab = lambda x: z3.If(x >= 0, x, -x)
        sl = z3.RealVal(rel) * (ab(a) + ab(b))
        if positive:
            return a + sl < b    # holds with room to spare
        return z3.Not(b + sl < a)  # the atom is false with room to spare: b < a by a margin
    return t


def robustify(assumptions, rel):
    return [(_slack(a, rel, True) if zx.is_z(a) else a) for a in assumptions]


class Obligations:
    def __init__(self, job, default_timeout_ms=60000):
        self.job = job
        self.default_timeout_ms = default_timeout_ms
        self.obligations = 0
        self.discharged = 0
        self.trivial = 0
        self.inconclusive = []
        self.violations = []
        self.samples = []
        self.solver_s = 0.0
        self.reach_ok = 0
        self.reach_fail = []
        self.kinds = {}
        self.extra = {}

    def _solver(self, assumptions, timeout_ms):
        s = z3.Solver()
        s.set("timeout", timeout_ms or self.default_timeout_ms)
        for a in assumptions:
            if zx.is_z(a):
                s.add(a)
            elif not a:
                s.add(z3.BoolVal(False))
        return s

    def prove(self, name, assumptions, goal, cex=None, timeout_ms=None, kind=None, direct=False, margin=None):
        """goal: z3 Bool or Python bool.  Returns 'unsat' | 'sat' | 'unknown'."""
        self.obligations += 1
        kind = kind or name.split("[")[0]
        self.kinds[kind] = self.kinds.get(kind, 0) + 1
        if zx.conc(goal):
            if goal:
                self.discharged += 1
                self.trivial += 1
                return "unsat"
            neg = z3.BoolVal(True)
        else:
            neg = z3.Not(goal)
        t0 = time.time()
        r = None
        s = None
        budget = timeout_ms or self.default_timeout_ms
        zas = [a for a in assumptions if zx.is_z(a)]
        if not direct and any(has_nonlinear(x) for x in zas + [neg]):
            r, s = self._prove_nonlinear(assumptions, neg, budget)
        if r is None:
            s = self._solver(assumptions, budget)
            s.add(neg)
            r = str(s.check())
            if r == "unknown":
                # nonlinear queries are erratic: retry with nlsat and with a different seed before giving up
                for mk in (lambda: z3.Tactic("qfnra-nlsat").solver(), lambda: z3.SolverFor("QF_NRA"), lambda: z3.Solver()):
                    try:
                        s2 = mk()
                        s2.set("timeout", budget)
                        try:
                            s2.set("random_seed", 7)
                        except Exception:
                            pass
                        for a in assumptions:
                            if zx.is_z(a):
                                s2.add(a)
                        s2.add(neg)
                        r2 = str(s2.check())
                    except Exception:
                        continue
                    self.extra["retries"] = self.extra.get("retries", 0) + 1
                    if r2 in ("sat", "unsat"):
                        r, s = r2, s2
                        break
        dt = time.time() - t0
        self.solver_s += dt
        self._dump(name, assumptions, neg, r)
        if r == "unsat":
            self.discharged += 1
            if len(self.samples) < 3:
                self.samples.append({"obligation": name, "job": self.job.get("name"), "result": "unsat",
                                     "solver_s": round(dt, 4),
                                     "negated_goal": str(z3.simplify(neg))[:400]})
        elif r == "sat":
            m = s.model()
            if margin is not None:
                # prefer a counterexample whose violation is large relative to the magnitude of the inputs, so that the
                # replay can tell it from floating-point noise at any scale (the properties are scale-free)
                m = self._refine(assumptions, neg, margin, budget) or m
            else:
                # prefer a counterexample that satisfies the path condition with room to spare: a model that sits exactly
                # on a branch boundary takes the other branch when replayed in floating point
                m = self._robust(assumptions, neg) or m
            data = None
            if cex is not None:
                try:
                    data = cex(m)
                except Exception as e:  # a model we cannot read is a harness problem, not a pass
                    data = {"error": f"cex builder failed: {e!r}"}
            self.violations.append({"obligation": name, "job": self.job, "cex": jsonable(data)})
        else:
            self.inconclusive.append({"obligation": name, "reason": s.reason_unknown(), "solver_s": round(dt, 2)})
        return r

    def _robust(self, assumptions, neg):
        if not any(zx.is_z(a) and has_real_order(a) for a in assumptions):
            return None
        for rel in (1e-2, 1e-4, 1e-7):
            s = self._solver(robustify(assumptions, rel), 5000)
            s.add(neg)
            try:
                if s.check() == z3.sat:
                    self.extra["robust_cex"] = self.extra.get("robust_cex", 0) + 1
                    return s.model()
            except Exception:
                pass
        return None

    def _refine(self, assumptions, neg, margin, budget):
        lhs, rhs, scaled, unit = margin
        M = z3.Real("M!scale")
        d = zx.Z(zx.to_real(lhs)) - zx.Z(zx.to_real(rhs))
        # the largest relative violation first; the last step is still ten times the relative tolerance of the replays
        for frac in (10 ** 3, 10 ** 6, 10 ** 9, 10 ** 12):
            s = self._solver(assumptions, min(budget, 20000))
            s.add(neg, M > 0)
            for x in scaled:
                if zx.is_z(x):
                    s.add(x <= M, x >= -M)
            for x in unit:
                if zx.is_z(x):
                    s.add(x >= 0, x <= 1)
            s.add(z3.Or(d >= M / frac, d <= -M / frac))
            try:
                if s.check() == z3.sat:
                    self.extra["refined_cex"] = self.extra.get("refined_cex", 0) + 1
                    return s.model()
            except Exception:
                pass
        return None

    def _dump(self, name, assumptions, neg, result):
        """MDPV_DUMP=<dir>: write the exact query of the first two obligations of each job as SMT-LIB2 (for the
        z3 / cvc5 cross-check in tools/crosscheck.py)."""
        import os
        d = os.environ.get("MDPV_DUMP")
        if not d or self.extra.get("_dumped", 0) >= 2 or result not in ("sat", "unsat"):
            return
        self.extra["_dumped"] = self.extra.get("_dumped", 0) + 1
        s = z3.Solver()
        for a in assumptions:
            if zx.is_z(a):
                s.add(a)
        s.add(neg)
        os.makedirs(d, exist_ok=True)
        safe = "".join(c if c.isalnum() else "_" for c in f"{self.job.get('name')}__{name}")[:150]
        with open(os.path.join(d, f"{safe}.{result}.smt2"), "w") as f:
            f.write(s.to_smt2())

    def _prove_nonlinear(self, assumptions, neg, budget):
        """Stage 1: products abstracted by an uninterpreted commutative function (sound for unsat).
        If the abstraction is sat, its integer assignment is used as a case hint: the exact query is
        solved with the integers fixed (no ite left on them); sat -> genuine counterexample, unsat ->
        that integer case is blocked in the abstraction and the loop continues (lazy case split).
        Returns (result or None, solver holding the model)."""
        cache = {}
        s1 = z3.Solver()
        s1.set("timeout", min(budget, 20000))
        for a in assumptions:
            if zx.is_z(a):
                s1.add(abstract_poly(a, cache))
            elif not a:
                s1.add(z3.BoolVal(False))
        s1.add(abstract_poly(neg, cache))
        ints = int_consts([neg])  # case split only on integers the goal mentions
        self.extra["abstract_queries"] = self.extra.get("abstract_queries", 0) + 1
        for it in range(300):
            r1 = str(s1.check())
            if r1 == "unsat":
                self.extra["abstract_unsat"] = self.extra.get("abstract_unsat", 0) + 1
                return "unsat", None
            if r1 != "sat" or not ints:
                return None, None
            m1 = s1.model()
            fix = [(v, m1.eval(v, model_completion=True)) for v in ints]
            s2 = self._solver(assumptions, min(budget, 20000))
            s2.add(neg)
            for v, val in fix:
                s2.add(v == val)
            r2 = str(s2.check())
            self.extra["case_queries"] = self.extra.get("case_queries", 0) + 1
            if r2 == "sat":
                return "sat", s2
            if r2 != "unsat":
                return None, None
            s1.add(z3.Or(*[v != val for v, val in fix]))
        return None, None

    def reach(self, name, assumptions, timeout_ms=None):
        """Reachability twin: the assumptions (incl. path condition) must be satisfiable."""
        s = self._solver(assumptions, timeout_ms)
        t0 = time.time()
        r = str(s.check())
        self.solver_s += time.time() - t0
        if r == "sat":
            self.reach_ok += 1
        else:
            self.reach_fail.append({"twin": name, "result": r})
        return r

    def fail_harness(self, what):
        self.inconclusive.append({"obligation": "harness", "reason": what})

    def result(self):
        return dict(
            job=self.job, obligations=self.obligations, discharged=self.discharged, trivial=self.trivial,
            inconclusive=self.inconclusive, violations=self.violations, samples=self.samples,
            solver_s=round(self.solver_s, 3), reach_ok=self.reach_ok, reach_fail=self.reach_fail,
            kinds=self.kinds, extra=self.extra,
        )


# --- multiplication abstraction ---------------------------------------------------------------
# Nonlinear real arithmetic under ite-heavy terms makes z3 erratic (probe: the same obligation is
# 0.1 s for one shape and a timeout for the next).  Stage 1 replaces every product of two
# non-numeral terms by an uninterpreted commutative function: if the negated goal is unsat under
# that abstraction it is unsat for real multiplication too (real `*` is one interpretation of the
# function), so `unsat` is sound.  A `sat`/`unknown` answer of stage 1 means nothing and the exact
# query is run (stage 2); only stage 2 can produce a counterexample.
_UMUL_R = z3.Function("umul", z3.RealSort(), z3.RealSort(), z3.RealSort())
_UMUL_I = z3.Function("umuli", z3.IntSort(), z3.IntSort(), z3.IntSort())
_UDIV_R = z3.Function("udiv", z3.RealSort(), z3.RealSort(), z3.RealSort())


def abstract_mul(t, cache=None):
    if cache is None:
        cache = {}
    stack = [(t, False)]
    while stack:
        e, done = stack.pop()
        k = e.get_id()
        if k in cache:
            continue
        if not z3.is_app(e):
            cache[k] = e
            continue
        ch = e.children()
        if not done:
            stack.append((e, True))
            for c in ch:
                if c.get_id() not in cache:
                    stack.append((c, False))
            continue
        nch = [cache[c.get_id()] for c in ch]
        if e.decl().kind() == z3.Z3_OP_MUL:
            consts = [c for c in nch if z3.is_rational_value(c) or z3.is_int_value(c)]
            others = sorted([c for c in nch if not (z3.is_rational_value(c) or z3.is_int_value(c))],
                            key=lambda x: x.get_id())
            if len(others) <= 1:
                cache[k] = e.decl()(*nch) if nch else e
            else:
                f = _UMUL_I if z3.is_int(e) else _UMUL_R
                acc = others[0]
                for o in others[1:]:
                    # symmetric by construction: a (.) b := g(a,b) + g(b,a), so that congruence
                    # closure sees commutativity even when the arguments are only semantically equal
                    acc = f(acc, o) + f(o, acc)
                for c in consts:
                    acc = c * acc
                cache[k] = acc
        elif e.decl().kind() == z3.Z3_OP_DIV and not (z3.is_rational_value(nch[1]) or z3.is_int_value(nch[1])):
            cache[k] = _UDIV_R(nch[0], nch[1])
        elif ch:
            cache[k] = e.decl()(*nch)
        else:
            cache[k] = e
    return cache[t.get_id()]


def int_consts(terms):
    seen, out = set(), []
    stack = list(terms)
    while stack:
        e = stack.pop()
        k = e.get_id()
        if k in seen:
            continue
        seen.add(k)
        if z3.is_const(e) and e.decl().kind() == z3.Z3_OP_UNINTERPRETED:
            if z3.is_int(e):
                out.append(e)
        else:
            stack.extend(e.children())
    return out


def has_nonlinear(t, seen=None):
    seen = set() if seen is None else seen
    stack = [t]
    while stack:
        e = stack.pop()
        k = e.get_id()
        if k in seen:
            continue
        seen.add(k)
        if z3.is_app(e):
            if e.decl().kind() == z3.Z3_OP_MUL:
                non = [c for c in e.children() if not (z3.is_rational_value(c) or z3.is_int_value(c))]
                if len(non) > 1:
                    return True
            if e.decl().kind() == z3.Z3_OP_DIV:
                d = e.children()[1]
                if not (z3.is_rational_value(d) or z3.is_int_value(d)):
                    return True
            stack.extend(e.children())
    return False


# --- polynomial normal form + symmetric monomial abstraction ------------------------------------------
# abstract_mul cannot prove  p*(r + g*v) == r*p + g*(v*p)  (it needs distributivity).  abstract_poly first brings every
# real-sorted arithmetic subterm into sum-of-monomials form over "atoms" (ite terms, symbols, ToReal(..), quotients by a
# non-numeral), then replaces each monomial of degree >= 2 by an uninterpreted function made symmetric by summing over
# all argument orders.  Unsat under this abstraction still implies unsat over the reals (each g_k may be interpreted as
# product/k!), and algebraically equal polynomials become syntactically equal up to congruent atoms.
_GK = {}


def _gk(k):
    if k not in _GK:
        _GK[k] = z3.Function(f"umon{k}", *([z3.RealSort()] * k), z3.RealSort())
    return _GK[k]


def abstract_poly(t, cache=None, limit=4000):
    cache = {} if cache is None else cache
    return _norm(t, cache, limit)


def _norm(t, cache, limit):
    k = t.get_id()
    if k in cache:
        return cache[k]
    if not z3.is_app(t) or not t.children():
        cache[k] = t
        return t
    if z3.is_real(t) and t.decl().kind() in (z3.Z3_OP_ADD, z3.Z3_OP_SUB, z3.Z3_OP_MUL, z3.Z3_OP_UMINUS, z3.Z3_OP_DIV):
        atoms = {}
        try:
            poly = _poly(t, cache, limit, atoms)
            r = _rebuild(poly, atoms)
        except OverflowError:
            r = t.decl()(*[_norm(c, cache, limit) for c in t.children()])
        cache[k] = r
        return r
    r = t.decl()(*[_norm(c, cache, limit) for c in t.children()])
    cache[k] = r
    return r


def _num(t):
    if z3.is_rational_value(t):
        return Fraction(t.numerator_as_long(), t.denominator_as_long())
    if z3.is_int_value(t):
        return Fraction(t.as_long())
    return None


def _poly(t, cache, limit, atoms):
    """{sorted tuple of atom ids: Fraction}"""
    c = _num(t)
    if c is not None:
        return {(): c} if c != 0 else {}
    kind = t.decl().kind() if z3.is_app(t) else None
    ch = t.children() if z3.is_app(t) else []
    if z3.is_real(t) and kind == z3.Z3_OP_ADD:
        out = {}
        for x in ch:
            for m, v in _poly(x, cache, limit, atoms).items():
                out[m] = out.get(m, 0) + v
        return {m: v for m, v in out.items() if v != 0}
    if z3.is_real(t) and kind == z3.Z3_OP_SUB:
        out = dict(_poly(ch[0], cache, limit, atoms))
        for x in ch[1:]:
            for m, v in _poly(x, cache, limit, atoms).items():
                out[m] = out.get(m, 0) - v
        return {m: v for m, v in out.items() if v != 0}
    if z3.is_real(t) and kind == z3.Z3_OP_UMINUS:
        return {m: -v for m, v in _poly(ch[0], cache, limit, atoms).items()}
    if z3.is_real(t) and kind == z3.Z3_OP_MUL:
        out = {(): Fraction(1)}
        for x in ch:
            px = _poly(x, cache, limit, atoms)
            new = {}
            if len(out) * max(1, len(px)) > limit:
                raise OverflowError
            for m1, v1 in out.items():
                for m2, v2 in px.items():
                    m = tuple(sorted(m1 + m2))
                    new[m] = new.get(m, 0) + v1 * v2
            out = {m: v for m, v in new.items() if v != 0}
        return out
    if z3.is_real(t) and kind == z3.Z3_OP_DIV:
        d = _num(ch[1])
        if d is not None and d != 0:
            return {m: v / d for m, v in _poly(ch[0], cache, limit, atoms).items()}
        a = _UDIV_R(_norm(ch[0], cache, limit), _norm(ch[1], cache, limit))
        atoms[a.get_id()] = a
        return {(a.get_id(),): Fraction(1)}
    # atom: normalise inside (conditions and branches of ite, arguments of to_real, ...)
    a = t if not ch else t.decl()(*[_norm(x, cache, limit) for x in ch])
    atoms[a.get_id()] = a
    return {(a.get_id(),): Fraction(1)}


def _rebuild(poly, atoms):
    import itertools
    terms = []
    for m in sorted(poly):
        coef = poly[m]
        cz = z3.RealVal(f"{coef.numerator}/{coef.denominator}") if coef.denominator != 1 else z3.RealVal(coef.numerator)
        if len(m) == 0:
            terms.append(cz)
            continue
        args = [atoms[i] for i in m]
        if len(args) == 1:
            mon = args[0]
        elif len(args) > 5:
            raise OverflowError
        else:
            g = _gk(len(args))
            mon = z3.Sum([g(*p) for p in set(itertools.permutations(args))])
        terms.append(mon if coef == 1 else cz * mon)
    if not terms:
        return z3.RealVal(0)
    return terms[0] if len(terms) == 1 else z3.Sum(terms)

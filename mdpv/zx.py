"""Scalar layer: values are Python numbers (int / Fraction / bool, or float +-inf/nan) or z3 terms.

Every operation folds constants when all operands are concrete and applies a few sound algebraic
identities (x+0, x*1, x*0, If(true,..)) so that masks and one-hot products do not bloat the terms.
Floats are modelled as reals (Fraction), integers as mathematical integers.
"""
from __future__ import annotations

import math
from fractions import Fraction

import numpy as np
import z3


class Unsupported(Exception):
    """The encoding cannot represent this operation -> the obligation is inconclusive (exit 2)."""


def is_z(x):
    return isinstance(x, z3.ExprRef)


def is_special(x):
    return isinstance(x, float)  # only inf / nan are kept as floats


def conc(x):
    return not isinstance(x, z3.ExprRef)


def from_np_scalar(v, dtype=None):
    """numpy / python scalar -> concrete scalar of this layer."""
    if isinstance(v, z3.ExprRef):
        return v
    if isinstance(v, (bool, np.bool_)):
        return bool(v)
    if isinstance(v, (int, np.integer)):
        return int(v)
    if isinstance(v, Fraction):
        return v
    f = float(v)
    if math.isinf(f) or math.isnan(f):
        return f
    return Fraction(f)


def Z(x):
    """concrete scalar -> z3 term"""
    if isinstance(x, z3.ExprRef):
        return x
    if isinstance(x, bool):
        return z3.BoolVal(x)
    if isinstance(x, int):
        return z3.IntVal(x)
    if isinstance(x, Fraction):
        if x.denominator == 1:
            return z3.RealVal(x.numerator)
        return z3.RealVal(f"{x.numerator}/{x.denominator}")
    if isinstance(x, float):
        raise Unsupported(f"arithmetic on special float {x!r} with a symbolic operand")
    raise TypeError(type(x))


def is_real_like(x):
    if isinstance(x, z3.ExprRef):
        return z3.is_real(x)
    return isinstance(x, (Fraction, float))


def is_int_like(x):
    if isinstance(x, z3.ExprRef):
        return z3.is_int(x)
    return isinstance(x, int) and not isinstance(x, bool)


def is_bool_like(x):
    if isinstance(x, z3.ExprRef):
        return z3.is_bool(x)
    return isinstance(x, bool)


def _coerce(x, y):
    """Bring two scalars to a common arithmetic sort (bool->int, int->real when mixed)."""
    if is_bool_like(x):
        x = b2i(x)
    if is_bool_like(y):
        y = b2i(y)
    if is_real_like(x) and is_int_like(y):
        y = to_real(y)
    elif is_int_like(x) and is_real_like(y):
        x = to_real(x)
    return x, y


def b2i(x):
    if isinstance(x, bool):
        return int(x)
    if is_z(x) and z3.is_bool(x):
        return z3.If(x, z3.IntVal(1), z3.IntVal(0))
    return x


def to_real(x):
    if isinstance(x, z3.ExprRef):
        if z3.is_bool(x):
            return z3.If(x, z3.RealVal(1), z3.RealVal(0))
        if z3.is_int(x):
            return z3.ToReal(x)
        return x
    if isinstance(x, bool):
        return Fraction(int(x))
    if isinstance(x, int):
        return Fraction(x)
    return x


def to_int(x):
    """float->int conversion (truncation); only defined for terms that are ToReal(int) or concrete."""
    if isinstance(x, z3.ExprRef):
        if z3.is_bool(x):
            return z3.If(x, z3.IntVal(1), z3.IntVal(0))
        if z3.is_int(x):
            return x
        if z3.is_app_of(x, z3.Z3_OP_TO_REAL):
            return x.arg(0)
        raise Unsupported("float -> int conversion of a symbolic real")
    if isinstance(x, bool):
        return int(x)
    if isinstance(x, int):
        return x
    if isinstance(x, Fraction):
        return int(x)  # truncation toward zero
    raise Unsupported(f"int({x!r})")


def to_int_trunc(x):
    """float -> int as XLA does it (truncation toward zero); symbolic reals become ToInt terms"""
    if isinstance(x, z3.ExprRef) and z3.is_real(x) and not z3.is_app_of(x, z3.Z3_OP_TO_REAL):
        return z3.If(x >= 0, z3.ToInt(x), -z3.ToInt(-x))
    return to_int(x)


def wrap_int(x, lo, hi):
    """reduce an integer into the representable range [lo, hi] of a narrow integer type (wrap-around)"""
    n = hi - lo + 1
    if conc(x):
        return (int(x) - lo) % n + lo
    a, b = interval(x)
    if a is not None and b is not None and a >= lo and b <= hi:
        return x
    return (x - lo) % n + lo


def to_bool(x):
    if isinstance(x, z3.ExprRef):
        if z3.is_bool(x):
            return x
        return x != 0
    return bool(x)


def _special_arith(op, x, y):
    if conc(x) and conc(y):
        try:
            return from_np_scalar(op(float(x), float(y)))
        except ZeroDivisionError:
            raise Unsupported("special float arithmetic")
    raise Unsupported("arithmetic between +-inf/nan and a symbolic value")


def add(x, y):
    x, y = _coerce(x, y)
    if is_special(x) or is_special(y):
        return _special_arith(lambda a, b: a + b, x, y)
    if conc(x) and conc(y):
        return x + y
    if conc(x) and x == 0:
        return y
    if conc(y) and y == 0:
        return x
    return Z(x) + Z(y)


def sub(x, y):
    x, y = _coerce(x, y)
    if is_special(x) or is_special(y):
        return _special_arith(lambda a, b: a - b, x, y)
    if conc(x) and conc(y):
        return x - y
    if conc(y) and y == 0:
        return x
    if conc(x) and x == 0:
        return -Z(y)
    return Z(x) - Z(y)


def mul(x, y):
    x, y = _coerce(x, y)
    if is_special(x) or is_special(y):
        return _special_arith(lambda a, b: a * b, x, y)
    if conc(x) and conc(y):
        return x * y
    for a, b in ((x, y), (y, x)):
        if conc(a):
            if a == 0:
                return a  # 0 * finite = 0 (reals; inf excluded by the number model)
            if a == 1:
                return b
    return Z(x) * Z(y)


def neg(x):
    if is_bool_like(x):
        x = b2i(x)
    if conc(x):
        return -x
    return -x


def truediv(x, y):
    """Real division. Division by a concrete zero follows IEEE for concrete numerators (+-inf/nan);
    a symbolic divisor that may be zero must be handled by the caller (fork or assumption)."""
    x, y = to_real(b2i(x)), to_real(b2i(y))
    if is_special(x) or is_special(y):
        if conc(x) and conc(y):
            try:
                return from_np_scalar(float(x) / float(y))
            except ZeroDivisionError:
                return float("nan")
        raise Unsupported("division involving +-inf/nan and a symbolic value")
    if conc(y) and y == 0:
        if conc(x):
            return float("inf") if x > 0 else (float("-inf") if x < 0 else float("nan"))
        raise Unsupported("symbolic value divided by concrete zero")
    if conc(x) and conc(y):
        return Fraction(x) / Fraction(y)
    if conc(y) and y == 1:
        return x
    if is_z(y):
        # z3's x/0 is an unspecified value, JAX's is +-inf/nan: never build the term unless the
        # path condition excludes a zero divisor.  The guard forks the path on "divisor == 0".
        if DIV_GUARD is None:
            raise Unsupported("symbolic divisor outside a path explorer")
        if DIV_GUARD(y == 0):
            if conc(x):
                return float("inf") if x > 0 else (float("-inf") if x < 0 else float("nan"))
            if DIV_GUARD(x > 0):
                return float("inf")
            if DIV_GUARD(x < 0):
                return float("-inf")
            return float("nan")
    if conc(x) and x == 0:
        return x
    return Z(x) / Z(y)


# set by the path explorer: callable(cond) -> bool (branches the current path on cond)
DIV_GUARD = None


def tdiv(x, y):
    """XLA integer division (truncating)."""
    if conc(x) and conc(y):
        if y == 0:
            raise Unsupported("integer division by zero")
        q = abs(x) // abs(y)
        return q if (x >= 0) == (y > 0) else -q
    x, y = Z(x), Z(y)
    q = x / y
    r = x % y
    return z3.If(z3.And(x < 0, r != 0), z3.If(y > 0, q + 1, q - 1), q)


def trem(x, y):
    if conc(x) and conc(y):
        return x - y * tdiv(x, y)
    return Z(x) - Z(y) * tdiv(x, y)


def div(x, y):
    if is_int_like(x) and is_int_like(y):
        return tdiv(x, y)
    return truediv(x, y)


def rem(x, y):
    if is_bool_like(x):
        x = b2i(x)
    if is_bool_like(y):
        y = b2i(y)
    if is_int_like(x) and is_int_like(y):
        return trem(x, y)
    raise Unsupported("rem on reals")


# --- integer interval analysis ---------------------------------------------------------------
# Harnesses register range assumptions on integer symbols (declare_bounds); comparisons, min/max and
# hence clamps / ite chains over such terms fold at construction time.  Sound only because the same
# range constraint is part of every query's assumptions (declare_bounds returns it).
BOUNDS = {}
_IV_CACHE = {}


def declare_bounds(var, lo, hi):
    BOUNDS[var.get_id()] = (lo, hi, var)  # keep the term alive: ast ids are reused after GC
    _IV_CACHE.clear()
    return z3.And(var >= lo, var <= hi)


def _iv_add(a, b):
    return (None if a[0] is None or b[0] is None else a[0] + b[0],
            None if a[1] is None or b[1] is None else a[1] + b[1])


def _iv_neg(a):
    return (None if a[1] is None else -a[1], None if a[0] is None else -a[0])


def _iv_scale(a, k):
    if k == 0:
        return (0, 0)
    if k > 0:
        return (None if a[0] is None else a[0] * k, None if a[1] is None else a[1] * k)
    return _iv_scale(_iv_neg(a), -k)


def _iv_union(a, b):
    return (None if a[0] is None or b[0] is None else min(a[0], b[0]),
            None if a[1] is None or b[1] is None else max(a[1], b[1]))


def interval(x):
    """(lo, hi) bounds of an integer scalar; None = unbounded."""
    if isinstance(x, bool):
        return (int(x), int(x))
    if isinstance(x, int):
        return (x, x)
    if not isinstance(x, z3.ExprRef) or not z3.is_int(x):
        return (None, None)
    k = x.get_id()
    r = _IV_CACHE.get(k)
    if r is not None:
        return r[0]
    r = (None, None)
    if z3.is_int_value(x):
        v = x.as_long()
        r = (v, v)
    elif z3.is_app(x):
        kind = x.decl().kind()
        ch = x.children()
        if kind == z3.Z3_OP_UNINTERPRETED and not ch:
            r = BOUNDS.get(k, (None, None))[:2]
        elif kind == z3.Z3_OP_ADD:
            r = (0, 0)
            for c in ch:
                r = _iv_add(r, interval(c))
        elif kind == z3.Z3_OP_SUB:
            r = interval(ch[0])
            for c in ch[1:]:
                r = _iv_add(r, _iv_neg(interval(c)))
        elif kind == z3.Z3_OP_UMINUS:
            r = _iv_neg(interval(ch[0]))
        elif kind == z3.Z3_OP_MUL and len(ch) == 2 and (z3.is_int_value(ch[0]) or z3.is_int_value(ch[1])):
            c, v = (ch[0], ch[1]) if z3.is_int_value(ch[0]) else (ch[1], ch[0])
            r = _iv_scale(interval(v), c.as_long())
        elif kind == z3.Z3_OP_ITE:
            r = _iv_union(interval(ch[1]), interval(ch[2]))
        elif kind == z3.Z3_OP_MOD and z3.is_int_value(ch[1]) and ch[1].as_long() > 0:
            r = (0, ch[1].as_long() - 1)
    _IV_CACHE[k] = (r, x)  # keep the term alive (see declare_bounds)
    return r


def _iv_decide(op, x, y):
    """Decide an integer comparison from intervals: True / False / None."""
    if not (is_int_like(x) and is_int_like(y)):
        return None
    (a, b), (c, d) = interval(x), interval(y)
    if op == "lt":
        if b is not None and c is not None and b < c:
            return True
        if a is not None and d is not None and a >= d:
            return False
    elif op == "le":
        if b is not None and c is not None and b <= c:
            return True
        if a is not None and d is not None and a > d:
            return False
    elif op == "eq":
        if (b is not None and c is not None and b < c) or (a is not None and d is not None and a > d):
            return False
        if a is not None and a == b == c == d:
            return True
    return None


def _cmp(op_c, op_z, special, ivop=None):
    def f(x, y):
        x, y = _coerce(x, y)
        if conc(x) and conc(y):
            return bool(op_c(x, y))
        if is_special(x) or is_special(y):
            v = x if is_special(x) else y
            if math.isnan(v):
                return special["nan"]
            side = "xinf" if is_special(x) else "yinf"
            return special[(side, v > 0)]
        if ivop is not None:
            d = ivop(x, y)
            if d is not None:
                return d
        return op_z(Z(x), Z(y))

    return f


# comparisons of a finite symbolic value with a concrete +-inf are constant
lt = _cmp(lambda a, b: a < b, lambda a, b: a < b,
          {"nan": False, ("xinf", True): False, ("xinf", False): True, ("yinf", True): True, ("yinf", False): False},
          lambda x, y: _iv_decide("lt", x, y))
le = _cmp(lambda a, b: a <= b, lambda a, b: a <= b,
          {"nan": False, ("xinf", True): False, ("xinf", False): True, ("yinf", True): True, ("yinf", False): False},
          lambda x, y: _iv_decide("le", x, y))
gt = _cmp(lambda a, b: a > b, lambda a, b: a > b,
          {"nan": False, ("xinf", True): True, ("xinf", False): False, ("yinf", True): False, ("yinf", False): True},
          lambda x, y: _iv_decide("lt", y, x))
ge = _cmp(lambda a, b: a >= b, lambda a, b: a >= b,
          {"nan": False, ("xinf", True): True, ("xinf", False): False, ("yinf", True): False, ("yinf", False): True},
          lambda x, y: _iv_decide("le", y, x))


def eq(x, y):
    if is_bool_like(x) and is_bool_like(y):
        if conc(x) and conc(y):
            return x == y
        return Z(x) == Z(y)
    x, y = _coerce(x, y)
    if conc(x) and conc(y):
        return bool(x == y)
    if is_special(x) or is_special(y):
        return False
    d = _iv_decide("eq", x, y)
    if d is not None:
        return d
    return Z(x) == Z(y)


def ne(x, y):
    return lnot(eq(x, y))


def lnot(x):
    if conc(x):
        return not bool(x)
    if z3.is_true(x):
        return False
    if z3.is_false(x):
        return True
    if z3.is_not(x):
        return x.arg(0)
    return z3.Not(x)


def land(x, y):
    if is_int_like(x) or is_int_like(y):
        raise Unsupported("bitwise and on integers")
    if conc(x):
        return y if x else False
    if conc(y):
        return x if y else False
    return z3.And(x, y)


def lor(x, y):
    if is_int_like(x) or is_int_like(y):
        raise Unsupported("bitwise or on integers")
    if conc(x):
        return True if x else y
    if conc(y):
        return True if y else x
    return z3.Or(x, y)


def ite(c, t, f):
    if conc(c):
        return t if c else f
    if conc(t) and conc(f) and type(t) is type(f) and t == f:
        return t
    if is_z(t) and is_z(f) and t.eq(f):
        return t
    if is_bool_like(t) and is_bool_like(f):
        return z3.If(c, Z(t), Z(f))
    t, f = _coerce(t, f)
    if is_special(t) or is_special(f):
        raise Unsupported("select between a symbolic value and +-inf/nan")
    return z3.If(c, Z(t), Z(f))


def smax(x, y):
    x, y = _coerce(x, y)
    if conc(x) and conc(y):
        return max(x, y)
    if is_special(x) or is_special(y):
        v, o = (x, y) if is_special(x) else (y, x)
        if v == float("inf"):
            return v
        if v == float("-inf"):
            return o
        raise Unsupported("max with nan")
    if _iv_decide("le", y, x):
        return x
    if _iv_decide("le", x, y):
        return y
    return z3.If(Z(x) >= Z(y), Z(x), Z(y))


def smin(x, y):
    x, y = _coerce(x, y)
    if conc(x) and conc(y):
        return min(x, y)
    if is_special(x) or is_special(y):
        v, o = (x, y) if is_special(x) else (y, x)
        if v == float("-inf"):
            return v
        if v == float("inf"):
            return o
        raise Unsupported("min with nan")
    if _iv_decide("le", x, y):
        return x
    if _iv_decide("le", y, x):
        return y
    return z3.If(Z(x) <= Z(y), Z(x), Z(y))


def sabs(x):
    if is_bool_like(x):
        x = b2i(x)
    if conc(x):
        return abs(x)
    return z3.If(x >= 0, x, -x)


def sign(x):
    if is_bool_like(x):
        x = b2i(x)
    if conc(x):
        s = (x > 0) - (x < 0)
        return Fraction(s) if isinstance(x, Fraction) else s
    if z3.is_int(x):
        return z3.If(x > 0, z3.IntVal(1), z3.If(x < 0, z3.IntVal(-1), z3.IntVal(0)))
    return z3.If(x > 0, z3.RealVal(1), z3.If(x < 0, z3.RealVal(-1), z3.RealVal(0)))


def ipow(x, n: int):
    if is_bool_like(x):
        x = b2i(x)
    if n == 0:
        return Fraction(1) if is_real_like(x) else 1
    if n < 0:
        return truediv(Fraction(1), ipow(x, -n))
    if conc(x):
        if is_special(x):
            return from_np_scalar(float(x) ** n)
        return x ** n
    r = x
    for _ in range(n - 1):
        r = r * x
    return r


# --- transcendental functions: uninterpreted, with exp(ln t) = t cancellation -------------------
_LN = z3.Function("ln", z3.RealSort(), z3.RealSort())
_EXP = z3.Function("exp", z3.RealSort(), z3.RealSort())


def ln(x):
    if conc(x):
        if is_special(x):
            return from_np_scalar(math.log(x)) if x > 0 else float("nan")
        if x > 0:
            return Fraction(math.log(x))
        return float("-inf") if x == 0 else float("nan")
    return _LN(to_real(x))


def exp(x):
    if conc(x):
        if is_special(x):
            return from_np_scalar(math.exp(x)) if not math.isnan(x) else x
        return Fraction(math.exp(x))
    if z3.is_app(x) and x.decl().eq(_LN):
        return x.arg(0)
    return _EXP(x)


def floor(x):
    if conc(x):
        if is_special(x):
            return x
        return Fraction(math.floor(x)) if isinstance(x, Fraction) else x
    if z3.is_int(x):
        return x
    return z3.ToReal(z3.ToInt(x))


# --- object arrays -------------------------------------------------------------------------------

def is_sym(x):
    return isinstance(x, np.ndarray) and x.dtype == object


def has_z(a):
    if not is_sym(a):
        return False
    for v in a.flat:
        if isinstance(v, z3.ExprRef):
            return True
    return False


def to_obj(x):
    """numpy array (any dtype) -> object array of scalars of this layer."""
    if is_sym(x):
        return x
    if isinstance(x, (z3.ExprRef, Fraction)):
        out = np.empty((), dtype=object)
        out[()] = x
        return out
    x = np.asarray(x)
    if x.dtype == object:
        return x
    out = np.empty(x.shape, dtype=object)
    if x.dtype == np.bool_:
        for idx in np.ndindex(x.shape):
            out[idx] = bool(x[idx])
    elif np.issubdtype(x.dtype, np.integer):
        for idx in np.ndindex(x.shape):
            out[idx] = int(x[idx])
    elif np.issubdtype(x.dtype, np.floating):
        for idx in np.ndindex(x.shape):
            out[idx] = from_np_scalar(x[idx])
    else:
        raise Unsupported(f"dtype {x.dtype}")
    return out


def obj_full(shape, v):
    out = np.empty(shape, dtype=object)
    for idx in np.ndindex(*shape):
        out[idx] = v
    return out


def ew(fn, *xs):
    xs = [to_obj(x) for x in xs]
    bs = np.broadcast_arrays(*xs) if len(xs) > 1 else xs
    out = np.empty(bs[0].shape, dtype=object)
    for idx in np.ndindex(out.shape):
        out[idx] = fn(*[b[idx] for b in bs])
    return out


def to_concrete(a, dtype):
    """object array with no z3 terms -> numpy array of dtype."""
    out = np.empty(a.shape, dtype=dtype)
    for idx in np.ndindex(a.shape):
        v = a[idx]
        out[idx] = float(v) if isinstance(v, Fraction) else v
    return out


def fresh_array(name, shape, kind):
    mk = {"real": z3.Real, "int": z3.Int, "bool": z3.Bool}[kind]
    a = np.empty(shape, dtype=object)
    for idx in np.ndindex(*shape):
        a[idx] = mk(name + "".join(f"_{i}" for i in idx)) if shape else mk(name)
    return a


def free_vars(e):
    """Set of names of uninterpreted constants in a z3 term (or collection of terms)."""
    seen = set()
    out = set()
    stack = [e] if is_z(e) else [x for x in e if is_z(x)]
    while stack:
        t = stack.pop()
        tid = t.get_id()
        if tid in seen:
            continue
        seen.add(tid)
        if z3.is_const(t) and t.decl().kind() == z3.Z3_OP_UNINTERPRETED:
            out.add(t.decl().name())
        else:
            stack.extend(t.children())
    return out


def model_value(m, x):
    """Evaluate scalar under a z3 model -> Fraction / int / bool."""
    if conc(x):
        return x
    v = m.eval(x, model_completion=True)
    if z3.is_bool(v):
        return z3.is_true(v)
    if z3.is_int_value(v):
        return v.as_long()
    if z3.is_rational_value(v):
        return Fraction(v.numerator_as_long(), v.denominator_as_long())
    if z3.is_algebraic_value(v):
        a = v.approx(30)
        return Fraction(a.numerator_as_long(), a.denominator_as_long())
    raise Unsupported(f"cannot read model value {v}")

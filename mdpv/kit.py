"""Shared pieces of the solver harnesses: building Tab problems/solvers, lifting tables to symbols,
reference Bellman operators written directly over the symbols, model evaluation."""
from __future__ import annotations

from fractions import Fraction

import jax
import jax.numpy as jnp
import numpy as np
import z3

from . import zx
from .tab import Tab
from .trace import lift, sym, val_of


# relative tolerance of the float64 replays of scale-free equalities: a few hundred ulps of the largest input magnitude
# (the sums involved have a handful of terms); counterexamples are pushed above it by the solver (harness._refine)
REPLAY_RTOL = 1e-13


def solver_class(name):
    import mdpax.solvers as ms
    return {
        "vi": ms.ValueIteration,
        "pi": ms.PolicyIteration,
        "rvi": ms.RelativeValueIteration,
        "pvi": ms.PeriodicValueIteration,
        "savi": ms.SemiAsyncValueIteration,
    }[name]


def rand_tables(S, A, E, seed, integer_rewards=False, stochastic=True):
    rng = np.random.default_rng(seed)
    T = rng.integers(0, S, (S, A, E)).astype(np.int32)
    R = rng.integers(-5, 6, (S, A, E)).astype(float) if integer_rewards else np.round(rng.normal(size=(S, A, E)) * 3, 3)
    if E == 1 or not stochastic:
        P = np.zeros((S, A, E))
        P[:, :, 0] = 1.0
    else:
        # dyadic probabilities: exactly representable, sum to exactly 1
        w = rng.integers(1, 8, (S, A, E)).astype(float)
        k = 2 ** 6
        P = np.floor(w / w.sum(-1, keepdims=True) * k) / k
        P[:, :, -1] += 1.0 - P.sum(-1)
    V0 = np.round(rng.normal(size=(S,)) * 2, 3)
    return T, R, P, V0


def make_tab(cfg, seed=0, with_policy=False):
    S, A, E = cfg["S"], cfg["A"], cfg["E"]
    T, R, P, V0 = rand_tables(S, A, E, seed)
    PI0 = np.random.default_rng(seed + 1).integers(0, A, (S,)) if with_policy else None
    return Tab(S, A, E, ds=cfg.get("ds", 1), da=cfg.get("da", 1), de=cfg.get("de", 1),
               offset=cfg.get("offset", 0), prob_array=cfg.get("prob_array", False),
               T=T, R=R, P=P, V0=V0, PI0=PI0)


def make_solver(name, pb, **kw):
    kw.setdefault("verbose", 0)
    kw.setdefault("gamma", 1.0 if name == "rvi" else 0.9)
    kw.setdefault("epsilon", 0.01)
    if name == "pvi":
        kw.setdefault("period", 2)
    return solver_class(name)(pb, **kw)


class Lifted:
    """Symbolic tables of a Tab problem (object arrays) + range constraints.

    `T` (object array [S,A,E]) is the successor *index* as a term: the rank of the symbolic successor
    vector, computed here independently of Tab.state_to_index."""

    def __init__(self, pb, lift_T=True, lift_P=True, lift_R=True, lift_V0=False, lift_PI0=False, tag=""):
        S, A, E = pb.S, pb.A, pb.E
        self.S, self.A, self.E = S, A, E
        self.pre = []
        ss = np.asarray(pb._ss)
        if lift_T:
            pb.T = sym(f"T{tag}", (S, A, E, pb.ds), "int")
            tv = pb.T.val
            for k in range(pb.ds):
                lo, hi = int(ss[:, k].min()), int(ss[:, k].max())
                for t in tv[..., k].flat:
                    self.pre.append(zx.declare_bounds(t, lo, hi))
        self.Tvec = val_of(pb.T)
        self.T = np.empty((S, A, E), dtype=object)
        for idx in np.ndindex(S, A, E):
            r = 0
            for k, st in enumerate(pb._sstr):
                r = zx.add(r, zx.mul(zx.sub(self.Tvec[idx + (k,)], pb.offset), st))
            self.T[idx] = r
            if lift_T and pb.ds > 1:
                self.pre.append(zx.Z(r) <= S - 1)  # the successor vector is one of the S listed states
        if lift_R:
            pb.R = sym(f"R{tag}", (S, A, E))
        if lift_P:
            pb.P = sym(f"P{tag}", (S, A, E))
        if lift_V0:
            pb.V0 = sym(f"V0{tag}", (S,))
        if lift_PI0:
            pb.PI0 = sym(f"PI0{tag}", (S,), "int")
            self.pre += [zx.declare_bounds(t, 0, A - 1) for t in pb.PI0.val.flat]
        self.R, self.P, self.V0 = (val_of(pb.R), val_of(pb.P), val_of(pb.V0))
        self.PI0 = None if pb.PI0 is None else val_of(pb.PI0)

    def T_pairs(self, Tvec_concrete):
        return assignment_pairs(self.Tvec, Tvec_concrete)

    def prob_constraints_ge0(self):
        return [p >= 0 for p in self.P.flat if zx.is_z(p)]

    def prob_constraints(self, positive=False):
        cons = []
        for i in range(self.S):
            for a in range(self.A):
                tot = 0
                for e in range(self.E):
                    p = self.P[i, a, e]
                    if zx.is_z(p):
                        cons.append(p > 0 if positive else p >= 0)
                    tot = zx.add(tot, p)
                c = zx.eq(tot, 1)
                if zx.is_z(c):
                    cons.append(c)
        return cons


def lookup(vec, idx):
    """vec[idx] for a symbolic idx known to lie in [0, len(vec)): the first c with idx <= c."""
    if zx.conc(idx):
        return vec[int(idx)]
    n = len(vec)
    r = vec[n - 1]
    for c in range(n - 2, -1, -1):
        r = zx.ite(zx.le(idx, c), vec[c], r)
    return r


def q_values(L, V, gamma):
    """Q[s][a] = sum_e P (R + gamma V[T]) over the lifted tables."""
    Q = []
    for i in range(L.S):
        row = []
        for a in range(L.A):
            q = Fraction(0)
            for e in range(L.E):
                nv = lookup(list(V), L.T[i, a, e])
                q = zx.add(q, zx.mul(L.P[i, a, e], zx.add(L.R[i, a, e], zx.mul(gamma, nv))))
            row.append(q)
        Q.append(row)
    return Q


def zmax_list(xs):
    r = xs[0]
    for x in xs[1:]:
        r = zx.smax(r, x)
    return r


def bellman(L, V, gamma):
    return [zmax_list(row) for row in q_values(L, V, gamma)]


def first_argmax(row):
    best, idx = row[0], 0
    for i, q in enumerate(row[1:], 1):
        b = zx.gt(q, best)
        idx = zx.ite(b, i, idx)
        best = zx.ite(b, q, best)
    return idx


def policy_row_index(row, action_space):
    """Given an action vector (terms) return (membership condition, action index term)."""
    A = len(action_space)
    conds = []
    for a in range(A):
        c = True
        for k in range(len(row)):
            c = zx.land(c, zx.eq(row[k], int(action_space[a][k])))
        conds.append(c)
    member = False
    for c in conds:
        member = zx.lor(member, c)
    idx = A - 1
    for a in range(A - 2, -1, -1):
        idx = zx.ite(conds[a], a, idx)
    return member, idx


# --- model / substitution helpers ------------------------------------------------------------

def model_array(m, arr):
    out = np.empty(arr.shape, dtype=object)
    for idx in np.ndindex(arr.shape):
        out[idx] = zx.model_value(m, arr[idx])
    return out


def frac_list(a):
    return np.asarray(a, dtype=object).tolist()


def substitute_eval(term, pairs):
    """Evaluate a term under a full assignment [(z3 const, python number)] -> Fraction/int/bool."""
    if zx.conc(term):
        return term
    sub = [(k, zx.Z(v)) for k, v in pairs]
    t = z3.simplify(z3.substitute(term, *sub))
    if z3.is_true(t):
        return True
    if z3.is_false(t):
        return False
    if z3.is_int_value(t):
        return t.as_long()
    if z3.is_rational_value(t):
        return Fraction(t.numerator_as_long(), t.denominator_as_long())
    # fall back to a solver model (e.g. terms with div/mod that simplify does not fold)
    s = z3.Solver()
    for k, v in pairs:
        s.add(k == zx.Z(v))
    if s.check() != z3.sat:
        raise zx.Unsupported("substitute_eval: assignment inconsistent")
    return zx.model_value(s.model(), term)


def assignment_pairs(symarr, values):
    """object array of z3 consts + numpy array of numbers -> [(const, Fraction/int)]"""
    pairs = []
    values = np.asarray(values)
    for idx in np.ndindex(symarr.shape):
        c = symarr[idx]
        if zx.is_z(c):
            pairs.append((c, zx.from_np_scalar(values[idx])))
    return pairs

"""Generic tabular Problem used by the solver harnesses.

Tables are plain attributes (T successor state *vector* [S,A,E,ds], R reward, P probability, V0
initial value, PI0 initial policy as action index) so a harness can replace them by SymTracers after construction
("attribute lifting"): with the tables symbolic, Tab *is* every finite MDP of that shape.

Variants: state/action/event vectors of dimension ds/da/de (mixed radix, first S/A/E vectors in
row-major order); `offset=1` shifts every state component by +1 so the all-zero padding vector is
not a state; `prob_array=True` returns the probability as a 1-element array (De Moor style).
"""
from __future__ import annotations

import itertools

import jax.numpy as jnp
import numpy as np

from mdpax.core.problem import Problem


def _space(n, dim, offset=0):
    """first n vectors of {0..}^dim in row-major order with radix 2 on trailing dims."""
    if dim == 1:
        return np.arange(n, dtype=np.int32).reshape(-1, 1) + offset, [1]
    radices = [int(np.ceil(n / 2 ** (dim - 1)))] + [2] * (dim - 1)
    vecs = list(itertools.product(*[range(r) for r in radices]))[:n]
    strides = [int(np.prod(radices[k + 1:])) for k in range(dim)]
    return np.array(vecs, dtype=np.int32) + offset, strides


class Tab(Problem):
    name = "tab"

    def __init__(self, S, A, E, ds=1, da=1, de=1, offset=0, prob_array=False,
                 T=None, R=None, P=None, V0=None, PI0=None, scale=None, v0_int=False):
        """scale: state vectors are multiples of `scale` (a float state space, e.g. stock in half units);
        v0_int: initial_value returns an integer-typed estimate."""
        self.S, self.A, self.E = S, A, E
        self.scale = scale
        self.ds, self.da, self.de, self.offset, self.prob_array = ds, da, de, offset, prob_array
        self._ss, self._sstr = _space(S, ds, offset)
        if scale is not None:
            self._ss = self._ss.astype(np.float64) * scale
        self._as, self._astr = _space(A, da)
        self._es, self._estr = _space(E, de)
        Tidx = np.zeros((S, A, E), dtype=np.int64) if T is None else np.asarray(T, dtype=np.int64)
        self.T = jnp.asarray(self._ss[Tidx], dtype=jnp.int32 if scale is None else jnp.float64)  # successor vectors
        self.R = jnp.zeros((S, A, E)) if R is None else jnp.asarray(R, dtype=jnp.float64)
        self.P = jnp.ones((S, A, E)) / E if P is None else jnp.asarray(P, dtype=jnp.float64)
        self.V0 = jnp.zeros((S,)) if V0 is None else jnp.asarray(V0, dtype=jnp.float64)
        if v0_int:
            self.V0 = jnp.asarray(np.round(np.asarray(self.V0)), dtype=jnp.int32)
        self.PI0 = None if PI0 is None else jnp.asarray(PI0, dtype=jnp.int32)
        super().__init__()

    def _construct_state_space(self):
        return jnp.asarray(self._ss)

    def _construct_action_space(self):
        return jnp.asarray(self._as)

    def _construct_random_event_space(self):
        return jnp.asarray(self._es)

    @staticmethod
    def _rank(v, strides, off, n):
        r = 0
        for k, st in enumerate(strides):
            r = r + (v[k] - off) * st
        return jnp.clip(r, 0, n - 1)

    def state_to_index(self, s):
        if self.scale is not None:
            s = jnp.round(s / self.scale).astype(jnp.int32)
        return self._rank(s, self._sstr, self.offset, self.S)

    def _a(self, a):
        return self._rank(a, self._astr, 0, self.A)

    def _e(self, e):
        return self._rank(e, self._estr, 0, self.E)

    def random_event_probability(self, s, a, e):
        p = self.P[self.state_to_index(s), self._a(a), self._e(e)]
        return p.reshape(1) if self.prob_array else p

    def transition(self, s, a, e):
        i, j, k = self.state_to_index(s), self._a(a), self._e(e)
        return self.T[i, j, k], self.R[i, j, k]

    def initial_value(self, s):
        return self.V0[self.state_to_index(s)]

    def initial_policy(self, s):
        if self.PI0 is None:
            raise NotImplementedError("No custom initial policy defined")
        return self.action_space[self.PI0[self.state_to_index(s)]]

"""Shared pieces of the checkpointing harnesses (C09, C10, C12)."""
from __future__ import annotations

import shutil
import tempfile

import jax
import jax.numpy as jnp
import numpy as np
import z3

from . import kit, pathx, zx
from .stubs.common import MutRows, USweep
from .trace import SymTracer, lift, sym, val_of

NS = 3  # states of the problems used here (Forest(S=3) / Tab S=3)


def make_problem(kind, seed=0):
    if kind == "forest":
        from mdpax.problems import Forest
        return Forest(S=NS, p=0.2)
    return kit.make_tab(dict(S=NS, A=2, E=1, bs=2), seed)


def make_solver(name, pb, ckdir=None, f=0, m=1, async_=True, **kw):
    kw = dict(kw)
    kw.setdefault("max_batch_size", 2)
    if name == "pvi":
        kw.setdefault("period", 2)
        kw.setdefault("clear_value_history_on_convergence", False)
    if name == "pi":
        kw.setdefault("max_eval_iter", 1)
    if ckdir is not None:
        kw.update(checkpoint_dir=ckdir, checkpoint_frequency=f, max_checkpoints=m, enable_async_checkpointing=async_)
    return kit.make_solver(name, pb, **kw)


class Abstraction:
    """uninterpreted sweep / evaluation / improvement shared by all solver objects of one scenario"""

    def __init__(self):
        self.U = USweep(NS, "U")
        self.UE = USweep(NS, "UE", extra_int_args=NS)
        self.POL = z3.Function("POL", *([z3.RealSort()] * NS), z3.IntSort())
        self.sweeps = {}

    def attach(self, solver, name, tag):
        self.sweeps[tag] = 0

        def upd(bs, a, e, g, v, tag=tag):
            self.sweeps[tag] += 1
            return self.U(v)

        def extract(*a, solver=solver, **k):
            v = [zx.Z(zx.to_real(x)) for x in val_of(solver.values)]
            arr = np.empty((NS, 1), dtype=object)
            for i in range(NS):
                arr[i, 0] = self.POL(*v) + i
            return lift(arr, jnp.int32)
        solver._update_values = upd
        solver._extract_policy = extract
        if name == "pi":
            def calc(policy, values, tag=tag):
                self.sweeps[tag] += 1
                return self.UE(values, extra=list(val_of(policy).reshape(-1)))
            solver._calculate_policy_values = calc


def state_of(solver):
    """runtime state as comparable scalars/terms"""
    d = dict(iteration=solver.iteration, values=list(val_of(solver.values)),
             policy=None if solver.policy is None else list(val_of(solver.policy).reshape(-1)))
    if hasattr(solver, "gain"):
        g = solver.gain
        d["gain"] = zx.from_np_scalar(g) if isinstance(g, float) else val_of(g).reshape(())[()]
    if hasattr(solver, "history_index"):
        d["history_index"] = solver.history_index
        d["period"] = solver.period
        vh = solver.value_history
        d["value_history"] = None if vh is None else [list(val_of(r)) for r in (vh.rows if isinstance(vh, MutRows) else vh)]
    if hasattr(solver, "batch_order"):
        d["batch_order"] = solver.batch_order
    return d


def eq_state(a, b):
    """list of (field, equality term/bool)"""
    out = [("iteration", a["iteration"] == b["iteration"])]
    for i, (x, y) in enumerate(zip(a["values"], b["values"])):
        out.append((f"values[{i}]", zx.eq(x, y)))
    if (a["policy"] is None) != (b["policy"] is None):
        out.append(("policy", False))
    elif a["policy"] is not None:
        for i, (x, y) in enumerate(zip(a["policy"], b["policy"])):
            out.append((f"policy[{i}]", zx.eq(x, y)))
    if "gain" in a:
        out.append(("gain", zx.eq(a["gain"], b["gain"])))
    if "history_index" in a:
        out.append(("history_index", a["history_index"] == b["history_index"]))
        out.append(("period", a["period"] == b["period"]))
        if (a["value_history"] is None) != (b["value_history"] is None):
            out.append(("value_history", False))
        elif a["value_history"] is not None:
            for r, (x, y) in enumerate(zip(a["value_history"], b["value_history"])):
                for i in range(len(x)):
                    out.append((f"value_history[{r},{i}]", zx.eq(x[i], y[i])))
    return out


class TempDirs:
    def __init__(self):
        self.dirs = []

    def new(self):
        d = tempfile.mkdtemp(prefix="mdpv-ck-")
        self.dirs.append(d)
        return d

    def cleanup(self):
        for d in self.dirs:
            shutil.rmtree(d, ignore_errors=True)
        self.dirs = []


import contextlib


@contextlib.contextmanager
def slow_commits(delay=0.25):
    """Replay schedule 'slow disk': the background commit of every real Orbax async save is delayed, so that the
    next sweep(s) finish while the previous write is still in flight (the schedule the model's pending save stands for)."""
    import time
    from orbax.checkpoint._src.checkpointers import async_checkpointer as ac
    orig = ac.AsyncCheckpointer._make_on_commit_callback

    def make(self, *a, **kw):
        cb = orig(self, *a, **kw)

        def slow():
            time.sleep(delay)
            return cb()
        return slow
    ac.AsyncCheckpointer._make_on_commit_callback = make
    try:
        yield
    finally:
        ac.AsyncCheckpointer._make_on_commit_callback = orig

"""Symbolic event-probability tables of the shipped problems with special functions replaced by
contract stubs (used by C13 and C16).  Every stub records how it was called."""
from __future__ import annotations

import itertools
import types
from fractions import Fraction

import jax
import jax.numpy as jnp
import numpy as np
import z3

from . import pathx, shipped, zx
from .pathx import SymReal, unwrap
from .stubs.common import patched
from .trace import SymTracer, lift, sym, symbolic, val_of


def R(name):
    return z3.Real(name)


def obj(vals):
    a = np.empty((len(vals),), dtype=object)
    for i, v in enumerate(vals):
        a[i] = v
    return a


def ssum(xs):
    r = Fraction(0)
    for x in xs:
        r = zx.add(r, x)
    return r


# ------------------------------------------------------------------------------------------------
# Forest

def forest_tables():
    """yields dict(pc, p, probs[(action,event)]) per host path of Forest(p symbolic)"""
    from mdpax.problems.forest import Forest
    p = R("p")
    ex = pathx.Explorer()

    def run():
        with symbolic():
            pathx.CUR.assume(z3.And(p >= 0, p <= 1))
            pb = Forest(S=3, p=lift(p))
            probs = {}
            for a in (0, 1):
                for e in (0, 1):
                    probs[(a, e)] = val_of(pb.random_event_probability(jnp.array([1]), jnp.array([a]), jnp.array([e]))).reshape(())[()]
            # symbolic action / event in {0,1}
            ac, ev = sym("a", (1,), "int"), sym("e", (1,), "int")
            for t in (ac.val[0], ev.val[0]):
                pathx.CUR.assume(zx.declare_bounds(t, 0, 1))
            psym = val_of(pb.random_event_probability(jnp.array([2]), ac, ev)).reshape(())[()]
            return dict(p=p, probs=probs, psym=psym, a=ac.val[0], e=ev.val[0])
    return list(ex.explore(run))


# ------------------------------------------------------------------------------------------------
# De Moor

class GammaStub:
    calls = []

    def __init__(self, *args, **kw):
        self.args, self.kw = args, kw

    def cdf(self, x):
        xs = np.asarray(x)
        F = [Fraction(0) if float(v) == 0.0 else R(f"F_{i}") for i, v in enumerate(xs)]
        GammaStub.calls.append(dict(args=self.args, kw=self.kw, x=xs.tolist(), F=F))
        return lift(obj(F), jnp.float64)


def de_moor_tables(D):
    import mdpax.problems.perishable_inventory.de_moor_single_product as dm
    mean, cov = R("mean"), R("cov")
    ex = pathx.Explorer()

    def run():
        GammaStub.calls = []
        stub = types.SimpleNamespace(distributions=types.SimpleNamespace(Gamma=GammaStub))
        with symbolic(), patched(dm, numpyro=stub):
            pathx.CUR.assume(z3.And(mean > 0, cov > 0))
            pb = dm.DeMoorSingleProductPerishable(max_demand=D, demand_gamma_mean=SymReal(mean), demand_gamma_cov=SymReal(cov),
                                                  max_useful_life=2, lead_time=1, max_order_quantity=1)
            call = GammaStub.calls[-1]
            probs = [val_of(pb.random_event_probability(jnp.array([0, 0]), jnp.array([0]), jnp.array([d]))).reshape(-1)[0] for d in range(D + 1)]
            return dict(mean=mean, cov=cov, alpha=unwrap(pb.demand_gamma_alpha), beta=unwrap(pb.demand_gamma_beta), call=call, probs=probs,
                        n_events=pb.n_random_events)
    return list(ex.explore(run))


def de_moor_contract(call):
    """F non-decreasing within [0,1] (F(0) = 0 is built in)"""
    F = call["F"]
    cons = []
    for i in range(1, len(F)):
        cons.append(zx.Z(zx.to_real(F[i])) >= zx.Z(zx.to_real(F[i - 1])))
    cons.append(zx.Z(zx.to_real(F[-1])) <= 1)
    return cons


# ------------------------------------------------------------------------------------------------
# Mirjalili

class NegBinStub:
    calls = []

    def __init__(self, total_count=None, probs=None, **kw):
        self.total_count, self.probs = total_count, probs
        self.idx = len(NegBinStub.calls)
        NegBinStub.calls.append(dict(total_count=total_count, probs=probs, kw=kw, xs=None))

    def log_prob(self, x):
        xs = np.asarray(x)
        NegBinStub.calls[self.idx]["xs"] = xs.tolist()
        return lift(obj([zx.ln(R(f"nb{self.tag}_{int(k)}")) for k in xs]), jnp.float64)

    tag = ""


class MultinomialStub:
    calls = []

    def __init__(self, logits=None, total_count=None, **kw):
        self.logits, self.total_count = logits, total_count
        MultinomialStub.calls.append(dict(logits=logits, total_count=total_count, kw=kw))

    def log_prob(self, x):
        xs = [int(v) for v in np.asarray(x)]
        return lift(zx.ln(R("mn_" + "_".join(map(str, xs)))), jnp.float64)


def mirjalili_tables(m, Q, D, weekday=0):
    """probabilities for every (action, event) at one weekday with symbolic n, delta, c0, c1."""
    import mdpax.problems.perishable_inventory.mirjalili_platelet as mj
    ex = pathx.Explorer(max_paths=50)

    def run():
        NegBinStub.calls, MultinomialStub.calls = [], []
        NegBinStub.tag = str(weekday)
        pb = shipped.build("mirjalili", max_useful_life=m, max_order_quantity=Q, max_demand=D)
        stub = types.SimpleNamespace(distributions=types.SimpleNamespace(NegativeBinomialProbs=NegBinStub, Multinomial=MultinomialStub))
        with symbolic(), patched(mj, numpyro=stub):
            n, dl = sym("n", (7,)), sym("dl", (7,))
            pathx.CUR.assume(z3.And(*[x > 0 for x in list(n.val) + list(dl.val)]))
            pb.weekday_demand_negbin_n, pb.weekday_demand_negbin_delta = n, dl
            pb._setup_before_space_construction()
            c0 = sym("c0", (max(m - 1, 0),)) if m > 1 else jnp.zeros((0,))
            c1 = sym("c1", (max(m - 1, 0),)) if m > 1 else jnp.zeros((0,))
            pb.useful_life_at_arrival_distribution_c_0, pb.useful_life_at_arrival_distribution_c_1 = c0, c1
            state = jnp.array([weekday] + [0] * (m - 1))
            events = np.asarray(pb.random_event_space)
            table = {}
            logits = {}
            for a in range(Q + 1):
                for ev in events:
                    before = len(MultinomialStub.calls)
                    p = pb.random_event_probability(state, jnp.array([a]), jnp.asarray(ev))
                    table[(a, tuple(int(x) for x in ev))] = val_of(p).reshape(())[()]
                    logits[a] = MultinomialStub.calls[before]
            return dict(n=n.val, dl=dl.val, c0=val_of(c0), c1=val_of(c1), p=val_of(pb.weekday_demand_negbin_p), table=table, events=events,
                        nb=NegBinStub.calls[-1], mn=logits, Q=Q, D=D, m=m, weekday=weekday)
    return list(ex.explore(run))


def mirjalili_contract(r):
    """negative binomial pmf values q_k >= 0 with sum_{k<=D} q_k <= 1; multinomial pmf >= 0 summing to 1 over the
    compositions of each order quantity."""
    D, Q, m, w = r["D"], r["Q"], r["m"], r["weekday"]
    q = [R(f"nb{w}_{k}") for k in range(D + 1)]
    cons = [x >= 0 for x in q] + [sum(q) <= 1]
    comps = {}
    for a in range(Q + 1):
        cs = [c for c in itertools.product(range(a + 1), repeat=m) if sum(c) == a]
        ms = [R("mn_" + "_".join(map(str, c))) for c in cs]
        comps[a] = (cs, ms)
        cons += [x >= 0 for x in ms] + [sum(ms) == 1]
    return cons, q, comps


# ------------------------------------------------------------------------------------------------
# Hendrix

def PA(k):
    return R(f"pa{int(k)}")


def PB(k):
    return R(f"pb{int(k)}")


def BIN(u, x):
    u, x = int(u), int(x)
    return R(f"bin_{u}_{x}") if 0 <= u <= x else Fraction(0)


class HendrixSym:
    """Hendrix problem whose Poisson / binomial tables are symbols. pmf tables pu, pz are built by the real
    _calculate_pu/_calculate_pz through module-global shims; random_event_probability runs under SymTrace."""

    MEAN_A, MEAN_B, SUB = 5.0, 7.0, 0.5

    def __init__(self, m, Qa, Qb):
        import mdpax.problems.perishable_inventory.hendrix_two_product as hx
        self.hx = hx
        self.m, self.Qa, self.Qb = m, Qa, Qb
        outer = self

        class Pois:
            @staticmethod
            def pmf(k, mu):
                f = PA if mu == outer.MEAN_A else PB
                k = np.asarray(k)
                out = np.empty(k.shape, dtype=object)
                for i in np.ndindex(k.shape):
                    out[i] = SymReal(f(k[i]))
                return out

        class Binom:
            @staticmethod
            def pmf(u, x, p):
                x = np.asarray(x)
                out = np.empty(x.shape, dtype=object)
                for i in np.ndindex(x.shape):
                    out[i] = SymReal(BIN(u, x[i]))
                return out

        class NP:
            def __getattr__(s, n):
                return getattr(np, n)

            def zeros(s, shape, dtype=None):
                if dtype is not None:
                    return np.zeros(shape, dtype=dtype)
                out = np.empty(shape, dtype=object)
                for i in np.ndindex(out.shape):
                    out[i] = SymReal(Fraction(0))
                return out

        class JNP:
            def __getattr__(s, n):
                return getattr(jnp, n)

            def array(s, x, *a, **k):
                return x if isinstance(x, np.ndarray) and x.dtype == object else jnp.array(x, *a, **k)
        self.stats = types.SimpleNamespace(stats=types.SimpleNamespace(poisson=Pois, binom=Binom))
        with patched(hx, scipy=self.stats, np=NP(), jnp=JNP()):
            self.pb = hx.HendrixTwoProductPerishable(max_useful_life=m, max_order_quantity_a=Qa, max_order_quantity_b=Qb,
                                                     demand_poisson_mean_a=self.MEAN_A, demand_poisson_mean_b=self.MEAN_B,
                                                     substitution_probability=self.SUB)
        # the truncation point the documentation (and the known finding of C13) names; the code's own value is compared
        # with it by the callers, the reference below never follows the code
        self.K = m * (max(Qa, Qb) + 2)
        self.K_code = int(self.pb.max_demand)
        self.pz_obj = self._unwrap(self.pb.pz)
        self.pu_obj = self._unwrap(self.pb.pu)

    @staticmethod
    def _unwrap(a):
        out = np.empty(a.shape, dtype=object)
        for i in np.ndindex(a.shape):
            out[i] = unwrap(a[i]) if not isinstance(a[i], (int, float)) else zx.from_np_scalar(a[i])
        return out

    def jax_proxy(self):
        outer = self

        class JP:
            @staticmethod
            def pmf(k, mu):
                f = PA if mu == outer.MEAN_A else PB
                return lift(obj([f(int(x)) for x in np.asarray(k)]), jnp.float64)

            @staticmethod
            def cdf(k, mu):
                f = PA if mu == outer.MEAN_A else PB
                k = int(np.asarray(k))
                return lift(ssum([f(j) for j in range(0, k + 1)]), jnp.float64) if k >= 0 else jnp.asarray(0.0)

        class Proxy:
            def __getattr__(s, n):
                return getattr(jax, n)
            scipy = types.SimpleNamespace(stats=types.SimpleNamespace(poisson=JP))
        return Proxy()

    def state_for(self, sa, sb):
        def spread(tot, Q):
            v = []
            for _ in range(self.m):
                v.append(min(tot, Q))
                tot -= v[-1]
            return v
        return jnp.array(spread(sa, self.Qa) + spread(sb, self.Qb), dtype=jnp.int32)

    def event_probs(self, sa, sb):
        """real random_event_probability for all events at total stocks (sa, sb) -> {event: term}"""
        pb = self.pb
        with symbolic(), patched(self.hx, jax=self.jax_proxy()):
            pb.pz = lift(self.pz_obj, jnp.float64)
            st = self.state_for(sa, sb)
            out = {}
            for ev in np.asarray(pb.random_event_space):
                p = pb.random_event_probability(st, jnp.array([0, 0]), jnp.asarray(ev))
                out[tuple(int(x) for x in ev)] = val_of(p).reshape(())[()]
            return out

    def initial_value(self, sa, sb):
        pb = self.pb
        with symbolic(), patched(self.hx, jax=self.jax_proxy()):
            pb.pz = lift(self.pz_obj, jnp.float64)
            prices = sym("price", (2,))
            pb.sales_prices = prices
            v = pb.initial_value(self.state_for(sa, sb))
            return val_of(v).reshape(())[()], list(prices.val)

    def contract(self):
        K = max(self.K, self.K_code)
        cons = [PA(k) >= 0 for k in range(K + 1)] + [PB(k) >= 0 for k in range(K + 1)]
        cons += [sum(PA(k) for k in range(K + 1)) <= 1, sum(PB(k) for k in range(K + 1)) <= 1]
        for x in range(K + 1):
            cons += [BIN(u, x) >= 0 for u in range(x + 1)] + [sum(BIN(u, x) for u in range(x + 1)) == 1]
        return cons

    def brute_force(self, sa, sb):
        """joint distribution of units issued over the truncated outcome region {d_b < K, d_a + u <= K} plus the
        exact product form for the no-stock-out-of-B cases; returns ({event: term}, dropped mass term)."""
        K = self.K
        tauA = zx.sub(1, ssum([PA(k) for k in range(K + 1)]))   # P(d_a > K)
        ref = {ev: Fraction(0) for ev in itertools.product(range(self.pb.max_stock_a + 1), range(self.pb.max_stock_b + 1))}
        dropped = zx.sub(1, ssum([PB(k) for k in range(K)]))  # P(d_b >= K)
        for db in range(0, K):
            if db < sb:
                # B not stocked out: no substitution; d_a unrestricted (code uses the exact cdf)
                for da in range(0, K + 1):
                    key = (min(da, sa), db)
                    ref[key] = zx.add(ref[key], zx.mul(PA(da), PB(db)))
                ref[(sa, db)] = zx.add(ref[(sa, db)], zx.mul(tauA, PB(db)))
            else:
                x = db - sb
                kept = Fraction(0)
                for u in range(0, x + 1):
                    for da in range(0, K + 1):
                        z = da + u
                        if z > K:
                            continue
                        t = zx.mul(zx.mul(PA(da), PB(db)), BIN(u, x))
                        key = (min(z, sa), sb)
                        ref[key] = zx.add(ref[key], t)
                        kept = zx.add(kept, t)
                dropped = zx.add(dropped, zx.sub(PB(db), kept))
        return ref, dropped

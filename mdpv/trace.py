"""SymTrace: a JAX trace whose tracers carry numpy object arrays of z3 terms.

Under `with symbolic():` the unmodified mdpax code runs eagerly: jit / pmap / scan / vmap all end
in `SymTrace.process_primitive`, and host-side Python (`if conv < thr:`) forks through pathx.
"""
from __future__ import annotations

import contextlib
from fractions import Fraction

import jax
import jax.numpy as jnp
import numpy as np
import z3
from jax._src import core

from . import pathx, rules, zx
from .zx import Unsupported


def _kind_of_dtype(dt):
    dt = np.dtype(dt)
    if dt == np.bool_:
        return "bool"
    if np.issubdtype(dt, np.integer):
        return "int"
    if np.issubdtype(dt, np.floating):
        return "real"
    raise Unsupported(f"dtype {dt}")


class SymTracer(core.Tracer):
    __slots__ = ["val", "_av"]

    def __init__(self, trace, val, av):
        self._trace = trace
        self.val = val
        self._av = av

    @property
    def aval(self):
        return self._av

    def full_lower(self):
        return self

    # host-side conversions -> path explorer
    def _scalar(self):
        if self.val.size != 1:
            raise ValueError("The truth value of an array with more than one element is ambiguous.")
        return self.val.reshape(())[()]

    def __bool__(self):
        v = self._scalar()
        if zx.is_bool_like(v):
            return pathx.branch(v)
        return pathx.branch(zx.ne(v, 0))

    def __index__(self):
        v = self._scalar()
        if not zx.is_int_like(v):
            raise TypeError("only integer scalar arrays can be converted to a scalar index")
        if zx.conc(v):
            return int(v)
        if pathx.CUR is None:
            raise Unsupported("int() of symbolic value outside explorer")
        return pathx.CUR.choose_int(v)

    def __int__(self):
        v = self._scalar()
        if zx.is_int_like(v):
            return self.__index__()
        raise Unsupported("int() of a symbolic real")

    def __float__(self):
        raise Unsupported("float() of a symbolic value (shadow `float` in the module under test)")

    def __format__(self, spec):
        pathx.note("format_spec", spec)
        pathx.note("formatted", (spec, self.val))
        if spec:
            format(1.0, spec)  # raises ValueError exactly when the real float formatting would
        return "<sym>"

    def __repr__(self):
        return f"SymTracer{self._av.str_short()}"

    def __array__(self, *a, **k):
        raise Unsupported("numpy conversion of a symbolic array (use the np shim)")


# arithmetic primitives that are evaluated exactly (on rationals) even when all inputs are concrete floats, when the
# trace runs in exact mode: otherwise a concrete float sub-computation is rounded by JAX and an exact-arithmetic
# identity that holds for the real-number semantics fails by 1 ulp (seen with an equivalent rewrite of the VI kernel)
EXACT_PRIMS = {"add", "sub", "mul", "div", "neg", "dot_general", "reduce_sum", "reduce_max", "reduce_min", "max", "min", "select_n",
               "integer_pow", "square", "abs", "cumsum", "broadcast_in_dim", "reshape", "squeeze", "concatenate", "slice", "gather",
               "dynamic_slice", "transpose", "rev", "convert_element_type", "expand_dims", "scatter-add", "scatter_add", "scatter", "clamp"}


class SymTrace(core.Trace):
    def __init__(self, exact=False):
        super().__init__()
        self.exact = exact

    def stage_value(self, val):
        return core.eval_trace.stage_value(val)

    def to_val(self, x):
        if isinstance(x, SymTracer):
            return x.val
        return np.asarray(x)

    def wrap(self, o, aval):
        if zx.is_sym(o):
            if zx.has_z(o) or (self.exact and np.issubdtype(np.dtype(aval.dtype), np.floating) and o.size
                               and not any(isinstance(v, float) for v in o.flat)):
                return SymTracer(self, o, core.ShapedArray(tuple(aval.shape), aval.dtype))
            o = zx.to_concrete(o, np.dtype(aval.dtype))
        return jnp.asarray(np.asarray(o), dtype=aval.dtype)

    def process_primitive(self, prim, tracers, params):
        with core.set_current_trace(core.eval_trace):
            if not any(isinstance(t, SymTracer) for t in tracers):
                if not (self.exact and prim.name in rules.EXACT_PRIMS and prim.name in rules.RULES and self._exact_worthwhile(tracers)):
                    return prim.bind(*tracers, **params)
            avals_in = [t.aval if isinstance(t, SymTracer) else core.typeof(t) for t in tracers]
            out_avals, _ = prim.abstract_eval(*avals_in, **params)
            vals = [self.to_val(t) for t in tracers]
            outs = rules.apply_primitive(prim, vals, params)
            if prim.multiple_results:
                return [self.wrap(o, a) for o, a in zip(outs, out_avals)]
            return self.wrap(outs, out_avals)

    @staticmethod
    def _exact_worthwhile(tracers):
        fl = False
        for t in tracers:
            a = np.asarray(t)
            if a.size > 20000:
                return False
            if np.issubdtype(a.dtype, np.floating):
                if not np.isfinite(a).all():
                    return False
                fl = True
        return fl

    def process_call(self, call_primitive, f, tracers, params):
        raise Unsupported("process_call")

    def process_custom_jvp_call(self, prim, fun, jvp, tracers, *, symbolic_zeros):
        with core.set_current_trace(self):
            return fun.call_wrapped(*tracers)

    def process_custom_vjp_call(self, prim, fun, fwd, bwd, tracers, out_trees, symbolic_zeros):
        with core.set_current_trace(self):
            return fun.call_wrapped(*tracers)


TRACE = None


@contextlib.contextmanager
def symbolic(exact=False):
    """Activate a fresh SymTrace (and clear JAX's caches: cached jaxprs hold concrete tables)."""
    global TRACE
    jax.clear_caches()
    tr = SymTrace(exact=exact)
    prev, TRACE = TRACE, tr
    prev_exact, rules.EXACT[0] = rules.EXACT[0], exact
    try:
        with core.set_current_trace(tr):
            yield tr
    finally:
        TRACE = prev
        rules.EXACT[0] = prev_exact


def lift(arr, dtype=None):
    """object array (or scalar term) -> SymTracer on the active trace."""
    if TRACE is None:
        raise RuntimeError("no active SymTrace")
    if not isinstance(arr, np.ndarray):
        a = np.empty((), dtype=object)
        a[()] = arr
        arr = a
    if dtype is None:
        e = arr.flat[0]
        dtype = jnp.bool_ if zx.is_bool_like(e) else (jnp.int32 if zx.is_int_like(e) else jnp.float64)
    return SymTracer(TRACE, arr, core.ShapedArray(arr.shape, np.dtype(dtype)))


def sym(name, shape=(), kind="real", dtype=None):
    if dtype is None:
        dtype = {"real": jnp.float64, "int": jnp.int32, "bool": jnp.bool_}[kind]
    return lift(zx.fresh_array(name, tuple(shape), kind), dtype)


def val_of(x):
    """SymTracer / jax array / numpy -> object array."""
    if isinstance(x, SymTracer):
        return x.val
    if isinstance(x, (pathx.SymInt, pathx.SymReal, pathx.SymBool)):
        a = np.empty((), dtype=object)
        a[()] = x.e
        return a
    return zx.to_obj(np.asarray(x))


def dtype_of(x):
    if isinstance(x, SymTracer):
        return np.dtype(x.aval.dtype)
    return np.asarray(x).dtype

"""Builders for small instances of the shipped problems and scalar reference models of their
documented dynamics, written over zx scalars (Python numbers or z3 terms)."""
from __future__ import annotations

from fractions import Fraction

import numpy as np

from . import zx


HISTORY = False   # when on, build() first constructs sibling instances (each differs from the requested one in one parameter)


class history:
    """`with shipped.history():` - every build() is preceded, in this process, by the construction of sibling instances
    of the same class whose parameters differ from the requested ones in exactly one field (larger and smaller / other
    choice).  What the checks then establish for the requested instance holds for an instance created *after* others:
    per-process state (module-level tables, memoised spaces) keyed on too few parameters shows up as a violation."""

    def __enter__(self):
        global HISTORY
        self.prev, HISTORY = HISTORY, True

    def __exit__(self, *a):
        global HISTORY
        HISTORY = self.prev


def sibling_kwargs(name, kw):
    import dataclasses
    # the configuration dataclass alone (defaults + requested values): the requested instance itself must not be built
    # before its siblings
    cfg = problem_class(name, kw).Config(**kw)
    base = {f.name: getattr(cfg, f.name) for f in dataclasses.fields(cfg) if f.name != "_target_"}
    out = []
    for k, v in base.items():
        alts = []
        if isinstance(v, bool):
            alts = [not v]
        elif isinstance(v, int):
            alts = [v + 1, v + 4, v - 1]
        elif isinstance(v, float):
            alts = [v * 1.5, v * 0.5]
        elif isinstance(v, str):
            alts = [x for x in ("fifo", "lifo") if x != v]
        elif isinstance(v, (tuple, list)) or hasattr(v, "__len__"):
            vv = tuple(float(x) for x in v)
            alts = [tuple(x * 1.5 for x in vv), tuple(x * 0.5 + 0.05 for x in vv)] if vv else []
        for a in alts:
            d = dict(base)
            d[k] = a
            if name == "mirjalili" and k == "max_useful_life":
                m = a
                d["useful_life_at_arrival_distribution_c_0"] = tuple(0.5 + 0.25 * i for i in range(m - 1))
                d["useful_life_at_arrival_distribution_c_1"] = tuple(0.1 * (i + 1) for i in range(m - 1))
            out.append((k, d))
    return out


BUILT_SIBLINGS = []


def problem_class(name, kw=None):
    from mdpax.problems import Forest
    from mdpax.problems.perishable_inventory.de_moor_single_product import DeMoorSingleProductPerishable
    from mdpax.problems.perishable_inventory.hendrix_two_product import HendrixTwoProductPerishable
    from mdpax.problems.perishable_inventory.mirjalili_platelet import MirjaliliPlateletPerishable
    if name == "mirjalili" and kw is not None:
        m = kw.get("max_useful_life", 3)
        kw.setdefault("useful_life_at_arrival_distribution_c_0", tuple(0.5 + 0.25 * i for i in range(m - 1)))
        kw.setdefault("useful_life_at_arrival_distribution_c_1", tuple(0.1 * (i + 1) for i in range(m - 1)))
    return {"forest": Forest, "de_moor": DeMoorSingleProductPerishable, "hendrix": HendrixTwoProductPerishable, "mirjalili": MirjaliliPlateletPerishable}[name]


def build(name, **kw):
    global HISTORY
    if HISTORY:
        HISTORY = False
        try:
            for k, d in sibling_kwargs(name, dict(kw)):
                try:
                    build(name, **d)
                    BUILT_SIBLINGS.append((name, k))
                except Exception:
                    pass   # not a valid parameter set (validation) or too large: not part of the history
        finally:
            HISTORY = True
    from mdpax.problems import Forest
    from mdpax.problems.perishable_inventory.de_moor_single_product import DeMoorSingleProductPerishable
    from mdpax.problems.perishable_inventory.hendrix_two_product import HendrixTwoProductPerishable
    from mdpax.problems.perishable_inventory.mirjalili_platelet import MirjaliliPlateletPerishable
    if name == "forest":
        return Forest(**kw)
    if name == "de_moor":
        return DeMoorSingleProductPerishable(**kw)
    if name == "hendrix":
        return HendrixTwoProductPerishable(**kw)
    if name == "mirjalili":
        m = kw.get("max_useful_life", 3)
        kw.setdefault("useful_life_at_arrival_distribution_c_0", tuple(0.5 + 0.25 * i for i in range(m - 1)))
        kw.setdefault("useful_life_at_arrival_distribution_c_1", tuple(0.1 * (i + 1) for i in range(m - 1)))
        return MirjaliliPlateletPerishable(**kw)
    raise KeyError(name)


def ssum(xs):
    r = 0
    for x in xs:
        r = zx.add(r, x)
    return r


def issue(stock, demand, oldest_first=True):
    """Issue `demand` units age class by age class (stock[-1] is the oldest).  Returns
    (stock after issue, units issued)."""
    order = range(len(stock) - 1, -1, -1) if oldest_first else range(len(stock))
    after = list(stock)
    remaining = demand
    issued = 0
    for k in order:
        take = zx.smin(stock[k], remaining)
        take = zx.smax(take, 0)
        after[k] = zx.sub(stock[k], take)
        remaining = zx.sub(remaining, take)
        issued = zx.add(issued, take)
    return after, issued


def de_moor_ref(state, action, event, costs, m, L, fifo):
    """Documented De Moor step. state = [in transit (L-1, newest order first), stock by age (m, oldest right)]."""
    in_transit, stock = list(state[:L - 1]), list(state[L - 1:])
    order, demand = action[0], event[0]
    after, issued = issue(stock, demand, oldest_first=fifo)
    shortage = zx.smax(zx.sub(demand, ssum(stock)), 0)
    expired = after[m - 1]
    holding = ssum(after[:m - 1])
    cost = ssum([zx.mul(costs[0], order), zx.mul(costs[1], shortage), zx.mul(costs[2], expired), zx.mul(costs[3], holding)])
    pipeline = [order] + in_transit            # length L; the last element arrives now
    arriving = pipeline[-1]
    closing_stock = [arriving] + after[:m - 1]
    nxt = pipeline[:L - 1] + closing_stock
    info = dict(opening=ssum(stock), receipts=arriving, issued=issued, expired=expired, closing=ssum(closing_stock),
                shortage=shortage, holding=holding)
    return nxt, zx.neg(cost), info


def hendrix_ref(state, action, event, prices, order_costs, m):
    sa, sb = list(state[:m]), list(state[m:])
    after_a, iss_a = issue(sa, event[0], True)
    after_b, iss_b = issue(sb, event[1], True)
    nxt = [action[0]] + after_a[:m - 1] + [action[1]] + after_b[:m - 1]
    revenue = zx.add(zx.mul(event[0], prices[0]), zx.mul(event[1], prices[1]))
    cost = zx.add(zx.mul(action[0], order_costs[0]), zx.mul(action[1], order_costs[1]))
    info = dict(opening_a=ssum(sa), opening_b=ssum(sb), issued_a=iss_a, issued_b=iss_b,
                expired_a=after_a[m - 1], expired_b=after_b[m - 1],
                closing_a=ssum(nxt[:m]), closing_b=ssum(nxt[m:]))
    return nxt, zx.sub(revenue, cost), info


def mirjalili_ref(state, action, event, costs, m, Q):
    weekday, stock = state[0], list(state[1:])
    order, demand, received = action[0], event[0], list(event[1:])
    opening = [zx.smin(zx.smax(zx.add(s, r), 0), Q) for s, r in zip([0] + stock, received)]
    after, issued = issue(opening, demand, True)
    shortage = zx.smax(zx.sub(demand, ssum(opening)), 0)
    expired = after[m - 1]
    holding = ssum(after)
    fixed = zx.ite(zx.gt(order, 0), 1, 0)
    cost = ssum([zx.mul(costs[0], order), zx.mul(costs[1], fixed), zx.mul(costs[2], shortage),
                 zx.mul(costs[3], expired), zx.mul(costs[4], holding)])
    wd = zx.add(weekday, 1)
    next_weekday = zx.ite(zx.eq(wd, 7), 0, wd)   # weekday in 0..6
    nxt = [next_weekday] + after[:m - 1]
    info = dict(opening=ssum(opening), issued=issued, expired=expired, closing=ssum(after[:m - 1]), shortage=shortage)
    return nxt, zx.neg(cost), info


def forest_ref(state, action, event, S, r1, r2):
    """pymdptoolbox forest example (the reference the repository's own tests pin)."""
    age, cut, fire = state[0], zx.eq(action[0], 1), zx.eq(event[0], 1)
    oldest = zx.eq(age, zx.sub(S, 1))
    reward_cut = zx.ite(oldest, r2, zx.ite(zx.eq(age, 0), Fraction(0), Fraction(1)))
    reward_wait = zx.ite(oldest, r1, Fraction(0))
    reward = zx.ite(cut, reward_cut, reward_wait)
    grown = zx.smin(zx.add(age, 1), zx.sub(S, 1))
    nxt = [zx.ite(zx.lor(cut, fire), 0, grown)]
    return nxt, reward

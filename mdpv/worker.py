"""Worker process: reads JSON jobs (one per line) on stdin, writes '@@RESULT <json>' lines."""
from __future__ import annotations

import importlib
import json
import sys
import time
import traceback


def main():
    prop = sys.argv[1]
    import jax
    jax.config.update("jax_enable_x64", True)
    from loguru import logger
    logger.remove()
    mod = importlib.import_module(f"mdpv.props.{prop}")
    for line in sys.stdin:
        line = line.strip()
        if not line:
            continue
        job = json.loads(line)
        t0 = time.time()
        try:
            res = mod.run_job(job)
        except BaseException as e:  # noqa: BLE001 - report everything as a harness failure
            res = {"job": job, "fatal": f"{type(e).__name__}: {e}\n" + traceback.format_exc()[-1800:]}
        res["wall_s"] = round(time.time() - t0, 2)
        sys.stdout.write("@@RESULT " + json.dumps(res) + "\n")
        sys.stdout.flush()


if __name__ == "__main__":
    main()

"""Contract model of the part of Orbax that mdpax uses (CheckpointManager / options / StandardSave /
StandardRestore), installed as `mdpax.utils.checkpointing.checkpoint`.

Contract (read from orbax-checkpoint 0.12.4 and validated against the real library on disk by
`validate_against_real_orbax`):
* the store is keyed by directory and shared by all managers on that directory (a fresh manager in a
  "fresh process" sees what earlier managers committed);
* `save(step, args=StandardSave(tree))` first waits for a pending save, is silently skipped when
  `latest_step() >= step` (should_save), otherwise snapshots every leaf at call time and, when the
  write finishes, keeps only the `max_to_keep` largest steps; with async checkpointing the save is
  pending until the next save / wait_until_finished;
* `latest_step()`, `all_steps()` see committed steps (observers first drain the pending save: the
  properties observe the directory after pending writes have finished); a manager lists the directory when it is
  created and afterwards only learns about its own saves (the real manager caches the step list), so a manager object
  kept alive does not see steps written later by another manager;
* `is_saving_in_progress()` is true while an asynchronous save is pending (the adversarial schedule: the background
  write takes until the next synchronisation point);
* `restore(step, args=StandardRestore(template))` returns the snapshot with the template's tree structure.
"""
from __future__ import annotations

import contextlib
import types

import jax
import numpy as np

from .common import MutRows, patched


class Store:
    dirs = {}
    log = []

    @classmethod
    def reset(cls):
        cls.dirs.clear()
        cls.log.clear()


class ModelOptions:
    def __init__(self, max_to_keep=None, create=True, enable_async_checkpointing=True, **kw):
        self.max_to_keep = max_to_keep
        self.create = create
        self.enable_async_checkpointing = enable_async_checkpointing
        self.extra = kw


class StdSave:
    def __init__(self, item):
        self.item = item


class StdRestore:
    def __init__(self, item=None):
        self.item = item


def _is_leaf(x):
    return x is None or isinstance(x, MutRows)


def _snapshot_leaf(x):
    if isinstance(x, MutRows):
        return x.copy()       # numpy leaves are deep-copied synchronously by the real handler
    if isinstance(x, np.ndarray):
        return x.copy()
    return x                  # jax arrays / tracers / python scalars are immutable


class ModelManager:
    def __init__(self, directory, options=None, **kw):
        self.directory = str(directory)
        self.options = options or ModelOptions()
        Store.dirs.setdefault(self.directory, {"committed": {}, "pending": None, "accepted": []})
        Store.log.append(("manager", self.directory, self.options.max_to_keep, self.options.enable_async_checkpointing))
        self._drain()
        self.known = set(self.st["committed"])      # directory listing at creation time

    @property
    def st(self):
        return Store.dirs[self.directory]

    def is_saving_in_progress(self):
        return self.st["pending"] is not None

    def _visible(self):
        return sorted(k for k in self.st["committed"] if k in self.known)

    def wait_until_finished(self):
        self._drain()

    def _drain(self):
        st = self.st
        if st["pending"] is not None:
            step, snap, keep_n = st["pending"]
            st["committed"][step] = snap
            st["pending"] = None
            if keep_n is not None:
                keep = sorted(st["committed"])[-keep_n:] if keep_n > 0 else []
                for k in list(st["committed"]):
                    if k not in keep:
                        del st["committed"][k]

    def latest_step(self):
        self.wait_until_finished()
        v = self._visible()
        return max(v) if v else None

    def all_steps(self, read=False):
        self.wait_until_finished()
        if read:
            self.known |= set(self.st["committed"])
        return self._visible()

    def reload(self):
        self.wait_until_finished()
        self.known = set(self.st["committed"])

    def save(self, step, args=None, **kw):
        self.wait_until_finished()
        v = self._visible()
        last = max(v) if v else None
        if last is not None and last >= step:
            Store.log.append(("skip", self.directory, step))
            return False
        snap = jax.tree_util.tree_map(_snapshot_leaf, args.item, is_leaf=_is_leaf)
        self.st["pending"] = (step, snap, self.options.max_to_keep)
        self.st["accepted"].append(step)
        self.known.add(step)
        Store.log.append(("save", self.directory, step))
        if not self.options.enable_async_checkpointing:
            self.wait_until_finished()
        return True

    def restore(self, step, args=None, **kw):
        self.wait_until_finished()
        if step not in self.st["committed"]:
            raise FileNotFoundError(f"No step {step} in {self.directory}")
        snap = self.st["committed"][step]
        leaves_s, tree_s = jax.tree_util.tree_flatten(snap, is_leaf=_is_leaf)
        leaves_s = [_snapshot_leaf(x) for x in leaves_s]  # a restore reads from disk: fresh objects, never aliases of the store
        if args is None or args.item is None:
            return jax.tree_util.tree_unflatten(tree_s, leaves_s)
        leaves_t, tree_t = jax.tree_util.tree_flatten(args.item, is_leaf=_is_leaf)
        if len(leaves_s) != len(leaves_t):
            raise ValueError(f"tree structure mismatch on restore: saved {len(leaves_s)} leaves, template {len(leaves_t)}")
        # a None leaf in the template yields None whatever was saved there (observed with the real
        # StandardRestore: a policy array saved by a VI-family solver comes back as None)
        leaves_s = [None if t is None else x for x, t in zip(leaves_s, leaves_t)]
        return jax.tree_util.tree_unflatten(tree_t, leaves_s)

    def close(self):
        self.wait_until_finished()


NAMESPACE = types.SimpleNamespace(
    CheckpointManager=ModelManager, CheckpointManagerOptions=ModelOptions,
    args=types.SimpleNamespace(StandardSave=StdSave, StandardRestore=StdRestore))


@contextlib.contextmanager
def installed():
    import mdpax.utils.checkpointing as ck
    Store.reset()
    with patched(ck, checkpoint=NAMESPACE):
        yield Store


def validate_against_real_orbax(schedules, tmp_root):
    """Run save schedules on the real Orbax CheckpointManager (on disk) and on the model; compare the
    committed steps and the restored contents.  schedules: list of dict(max_to_keep, async_, steps=[...])."""
    import os
    import shutil
    import tempfile

    import jax.numpy as jnp
    import orbax.checkpoint as ocp
    problems = []
    for sc in schedules:
        d = tempfile.mkdtemp(prefix="mdpv-orbax-", dir=tmp_root)
        try:
            opts = ocp.CheckpointManagerOptions(max_to_keep=sc["max_to_keep"], create=True, enable_async_checkpointing=sc["async_"])
            real = ocp.CheckpointManager(d, options=opts)
            Store.reset()
            model = ModelManager(d, ModelOptions(max_to_keep=sc["max_to_keep"], enable_async_checkpointing=sc["async_"]))
            for i, step in enumerate(sc["steps"]):
                tree = {"values": jnp.arange(3.0) + step, "policy": jnp.arange(3) + i, "info": {"iteration": step, "tag": float(i)}}
                real.save(step, args=ocp.args.StandardSave(tree))
                model.save(step, args=StdSave(tree))
            real.wait_until_finished()
            model.wait_until_finished()
            rs, ms = sorted(real.all_steps()), model.all_steps()
            if rs != ms:
                problems.append(f"schedule {sc}: real steps {rs} model steps {ms}")
            else:
                for step in rs:
                    tmpl = {"values": jnp.zeros(3), "policy": None, "info": {"iteration": 0, "tag": 0.0}}
                    a = real.restore(step, args=ocp.args.StandardRestore(tmpl))
                    b = model.restore(step, args=StdRestore(tmpl))
                    same = (a["policy"] is None) == (b["policy"] is None) and np.array_equal(np.asarray(a["values"]), np.asarray(b["values"])) and \
                        int(a["info"]["iteration"]) == int(b["info"]["iteration"]) and float(a["info"]["tag"]) == float(b["info"]["tag"])
                    if not same:
                        problems.append(f"schedule {sc}: step {step} content differs: real {a} model {b}")
                if (real.latest_step() or None) != model.latest_step():
                    problems.append(f"schedule {sc}: latest_step differs")
            real.close()
        finally:
            shutil.rmtree(d, ignore_errors=True)
    problems += validate_views(tmp_root)
    return problems


def validate_views(tmp_root):
    """The per-manager facts the model relies on: a save is 'in progress' until its background commit is over (and only
    in async mode); a manager sees the steps that existed when it was created plus its own saves, a new manager sees all."""
    import os
    import shutil
    import tempfile

    import jax.numpy as jnp
    import orbax.checkpoint as ocp
    from ..ckkit import slow_commits
    problems = []
    d = tempfile.mkdtemp(prefix="mdpv-orbax-", dir=tmp_root)
    try:
        tree = lambda k: {"values": jnp.arange(3.0) + k}
        for async_ in (True, False):
            dd = os.path.join(d, f"a{int(async_)}")
            with slow_commits(0.3):
                real = ocp.CheckpointManager(dd, options=ocp.CheckpointManagerOptions(max_to_keep=3, create=True, enable_async_checkpointing=async_))
                Store.reset()
                model = ModelManager(dd, ModelOptions(max_to_keep=3, enable_async_checkpointing=async_))
                real.save(1, args=ocp.args.StandardSave(tree(1)))
                model.save(1, args=StdSave(tree(1)))
                if bool(real.is_saving_in_progress()) != bool(model.is_saving_in_progress()):
                    problems.append(f"is_saving_in_progress right after save (async={async_}): real {real.is_saving_in_progress()} model {model.is_saving_in_progress()}")
                real.wait_until_finished()
                model.wait_until_finished()
                if bool(real.is_saving_in_progress()) or bool(model.is_saving_in_progress()):
                    problems.append(f"is_saving_in_progress after wait (async={async_})")
            reader = ocp.CheckpointManager(dd, options=ocp.CheckpointManagerOptions(max_to_keep=1, create=True, enable_async_checkpointing=True))
            mreader = ModelManager(dd, ModelOptions(max_to_keep=1, enable_async_checkpointing=True))
            real.save(2, args=ocp.args.StandardSave(tree(2)))
            model.save(2, args=StdSave(tree(2)))
            real.wait_until_finished()
            model.wait_until_finished()
            fresh = ocp.CheckpointManager(dd, options=ocp.CheckpointManagerOptions(max_to_keep=1, create=True, enable_async_checkpointing=True))
            mfresh = ModelManager(dd, ModelOptions(max_to_keep=1, enable_async_checkpointing=True))
            got = (reader.latest_step(), fresh.latest_step(), real.latest_step())
            want = (mreader.latest_step(), mfresh.latest_step(), model.latest_step())
            if got != want:
                problems.append(f"latest_step views (old reader, fresh reader, writer): real {got} model {want}")
            for mg in (real, reader, fresh):
                mg.close()
    finally:
        shutil.rmtree(d, ignore_errors=True)
    return problems

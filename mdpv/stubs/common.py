"""Module-global shims used by the loop-level harnesses (each is part of the claim; see DESIGN E5)."""
from __future__ import annotations

import contextlib

import jax.numpy as jnp
import numpy as np
import z3
from jax._src import core

from .. import zx
from ..trace import SymTracer, lift, val_of


@contextlib.contextmanager
def patched(module, **names):
    """Shadow names in a module's globals (functions resolve globals before builtins) and restore."""
    missing = object()
    old = {k: module.__dict__.get(k, missing) for k in names}
    module.__dict__.update(names)
    try:
        yield
    finally:
        for k, v in old.items():
            if v is missing:
                module.__dict__.pop(k, None)
            else:
                module.__dict__[k] = v


class MutRows:
    """host-side mutable buffer of rows: replacement for np.zeros((p+1, n)) holding tracers/arrays."""

    def __init__(self, shape, rows=None):
        self.shape = tuple(shape)
        self.rows = list(rows) if rows is not None else [jnp.zeros(shape[1]) for _ in range(shape[0])]

    def __setitem__(self, i, v):
        self.rows[int(i)] = v

    def __getitem__(self, i):
        return self.rows[int(i)]

    def __len__(self):
        return len(self.rows)

    def copy(self):
        return MutRows(self.shape, self.rows)


class NPShim:
    """np.* as seen by periodic_value_iteration: zeros -> MutRows, array/zeros_like tracer-aware."""

    def __getattr__(self, n):
        return getattr(np, n)

    def zeros(self, shape, *a, **k):
        if isinstance(shape, tuple) and len(shape) == 2:
            return MutRows(shape)
        return np.zeros(shape, *a, **k)

    def array(self, x, *a, **k):
        if isinstance(x, (core.Tracer, MutRows)):
            return x
        if hasattr(x, "devices") or hasattr(x, "addressable_shards"):
            return x  # keep jax arrays as they are (immutable, so sharing is equivalent to copying)
        return np.array(x, *a, **k)

    def zeros_like(self, x, *a, **k):
        return jnp.zeros_like(x)


class USweep:
    """The sweep as an uninterpreted function on value vectors: U_i(v_0..v_{S-1}).  Sound for claims
    about counting / ordering / state threading: any difference in how often or on what the sweep
    is applied shows up as a different term."""

    def __init__(self, S, name="U", extra_int_args=0):
        self.S = S
        self.name = name
        self.fs = [z3.Function(f"{name}{i}", *([z3.RealSort()] * S + [z3.IntSort()] * extra_int_args), z3.RealSort())
                   for i in range(S)]
        self.calls = 0
        self.log = []

    def apply_terms(self, v, extra=()):
        args = [zx.Z(zx.to_real(x)) for x in v] + [zx.Z(x) for x in extra]
        return [f(*args) for f in self.fs]

    def __call__(self, values, extra=()):
        v = list(val_of(values).reshape(-1))
        self.calls += 1
        out = np.empty((self.S,), dtype=object)
        for i, t in enumerate(self.apply_terms(v, extra)):
            out[i] = t
        self.log.append(v)
        return lift(out, jnp.float64)

    def power(self, v0, n):
        v = list(v0)
        for _ in range(n):
            v = self.apply_terms(v)
        return v


class KeyedUSweep(USweep):
    """Sweep abstraction for solvers whose sweep depends on a pseudo-random key (shuffled visiting order): the key
    used by the code is an extra argument, so reusing / skipping / resetting keys shows up as a different term.
    `schedule[i]` is the documented key of sweep i+1 (successive splits of PRNGKey(random_seed))."""
    keyed = True

    def __init__(self, S, name, schedule):
        super().__init__(S, name, extra_int_args=1)
        self.schedule = list(schedule)
        self.cur = None
        self.klog = []

    def set_key(self, kid):
        self.cur = kid

    def __call__(self, values, extra=()):
        self.klog.append(self.cur)
        return super().__call__(values, extra=[self.cur])

    def apply_terms(self, v, extra=(), step=None):
        if not extra:
            extra = [self.schedule[step]]
        return super().apply_terms(v, extra)


def key_id(k):
    w = np.asarray(k).reshape(-1)
    return int(w[0]) * 2 ** 32 + int(w[1])


def key_schedule(seed, n):
    import jax
    key = jax.random.PRNGKey(seed)
    out = []
    for _ in range(n):
        key, sub = jax.random.split(key)
        out.append(key_id(sub))
    return out


def span_terms(new, old):
    d = [zx.sub(a, b) for a, b in zip(new, old)]
    mx, mn = d[0], d[0]
    for x in d[1:]:
        mx, mn = zx.smax(mx, x), zx.smin(mn, x)
    return zx.sub(mx, mn)


def maxdiff_terms(new, old):
    d = [zx.sabs(zx.sub(a, b)) for a, b in zip(new, old)]
    mx = d[0]
    for x in d[1:]:
        mx = zx.smax(mx, x)
    return mx


def sfloat(x):
    """`float` as shadowed in modules under test: identity on symbolic values, builtin otherwise."""
    from ..pathx import _Sym
    if isinstance(x, (SymTracer, _Sym)):
        return x
    return float(x)

"""Driver: bin/check <ID> [--tier quick|thorough] [--replay file]

Exit codes: 0 property held on everything explored (known findings printed as KNOWN-FINDING);
1 violation confirmed by replay on the real code (VIOLATION line); 2 inconclusive / harness error.
"""
from __future__ import annotations

import argparse
import hashlib
import importlib
import json
import os
import queue
import subprocess
import sys
import threading
import time
from pathlib import Path

ROOT = Path(__file__).resolve().parent.parent
PY = "/venv/bin/python"
OUT = Path(os.environ.get("MDPV_OUT") or ROOT)   # evidence/ and replays/ go here (self-tests write elsewhere)


def base_env(devices=1):
    env = dict(os.environ)
    env["PYTHONPATH"] = f"{ROOT}/.deps:{ROOT}"
    if os.environ.get("MDPV_SRC"):
        # self-test only (tools/regress.sh): analyse a scratch copy of /repo/src with a seeded change applied
        env["PYTHONPATH"] = os.environ["MDPV_SRC"] + ":" + env["PYTHONPATH"]
    env["JAX_PLATFORMS"] = "cpu"
    env["MDPAX_VERIF"] = "1"
    env["XLA_FLAGS"] = f"--xla_force_host_platform_device_count={devices}"
    env["OMP_NUM_THREADS"] = "1"
    env["TF_CPP_MIN_LOG_LEVEL"] = "3"
    env.setdefault("TMPDIR", "/tmp")
    return env


class Worker:
    def __init__(self, prop, devices, idx):
        self.devices = devices
        logdir = OUT / ".logs"
        logdir.mkdir(parents=True, exist_ok=True)
        self.errpath = logdir / f"{prop}-d{devices}-w{idx}.err"
        self.err = open(self.errpath, "w")
        self.p = subprocess.Popen([PY, "-u", "-m", "mdpv.worker", prop], stdin=subprocess.PIPE,
                                  stdout=subprocess.PIPE, stderr=self.err, env=base_env(devices),
                                  cwd=str(ROOT), text=True, bufsize=1)
        self.q = queue.Queue()
        self.t = threading.Thread(target=self._reader, daemon=True)
        self.t.start()

    def _reader(self):
        for line in self.p.stdout:
            if line.startswith("@@RESULT "):
                self.q.put(line[9:])
        self.q.put(None)

    def run(self, job, timeout):
        self.p.stdin.write(json.dumps(job) + "\n")
        self.p.stdin.flush()
        try:
            line = self.q.get(timeout=timeout)
        except queue.Empty:
            self.kill()
            return {"job": job, "fatal": f"job exceeded {timeout}s wall limit"}
        if line is None:
            tail = ""
            try:
                self.err.flush()
                tail = open(self.errpath).read()[-1500:]
            except Exception:
                pass
            return {"job": job, "fatal": "worker died: " + tail}
        return json.loads(line)

    def kill(self):
        try:
            self.p.kill()
        except Exception:
            pass

    def close(self):
        try:
            self.p.stdin.close()
            self.p.wait(timeout=10)
        except Exception:
            self.kill()
        self.err.close()

    @property
    def alive(self):
        return self.p.poll() is None


def run_jobs(prop, jobs, nworkers, job_timeout):
    """dynamic dispatch of jobs over worker processes grouped by emulated device count."""
    results = [None] * len(jobs)
    todo = queue.Queue()
    order = sorted(range(len(jobs)), key=lambda i: -jobs[i].get("cost", 1))
    for i in order:
        todo.put(i)
    lock = threading.Lock()
    counter = [0]

    def loop(widx):
        workers = {}
        while True:
            try:
                i = todo.get_nowait()
            except queue.Empty:
                break
            job = jobs[i]
            d = int(job.get("devices", 1))
            w = workers.get(d)
            if w is None or not w.alive:
                with lock:
                    counter[0] += 1
                    n = counter[0]
                w = workers[d] = Worker(prop, d, n)
            t_job = time.time()
            results[i] = w.run(job, job.get("timeout", job_timeout))
            if os.environ.get("MDPV_PROGRESS"):
                print(f"[{time.strftime('%H:%M:%S')}] {prop} job {job.get('name')} {time.time() - t_job:.0f}s "
                      f"{'FATAL' if 'fatal' in results[i] else 'ok'} ({todo.qsize()} queued)", file=sys.stderr, flush=True)
            if "fatal" in results[i]:
                if w.alive:
                    w.kill()
                if results[i]["fatal"].startswith("worker died"):
                    # retry once on a fresh worker (a died worker says nothing about the job)
                    with lock:
                        counter[0] += 1
                        n = counter[0]
                    w = workers[d] = Worker(prop, d, n)
                    first = results[i]["fatal"]
                    results[i] = w.run(job, job.get("timeout", job_timeout))
                    if "fatal" in results[i]:
                        results[i]["fatal"] += " | first attempt: " + first[:300]
                        if w.alive:
                            w.kill()
        for w in workers.values():
            w.close()

    threads = [threading.Thread(target=loop, args=(k,)) for k in range(min(nworkers, max(1, len(jobs))))]
    for t in threads:
        t.start()
    for t in threads:
        t.join()
    return results


def load_known(prop):
    p = ROOT / "known_findings.json"
    if not p.exists():
        return {}
    data = json.loads(p.read_text())
    return {f["key"]: f for f in data.get("findings", []) if f.get("property") == prop}


def main(argv=None):
    ap = argparse.ArgumentParser()
    ap.add_argument("prop")
    ap.add_argument("--tier", default=os.environ.get("VERIF_TIER", "quick"))
    ap.add_argument("--replay")
    ap.add_argument("--workers", type=int, default=int(os.environ.get("MDPV_WORKERS", "14")))
    ap.add_argument("--only", help="substring filter on job names (debugging)")
    args = ap.parse_args(argv)
    prop = args.prop
    seed = int(os.environ.get("VERIF_SEED", "0"))
    mod = importlib.import_module(f"mdpv.props.{prop}")

    if args.replay:
        if getattr(mod, "REPLAY_X64", True):
            import jax
            jax.config.update("jax_enable_x64", True)
        from loguru import logger
        logger.remove()
        data = json.loads(Path(args.replay).read_text())
        ok, msg = mod.replay(data)
        print(("REPRODUCED: " if ok else "NOT REPRODUCED: ") + " ".join(str(msg).split()))
        return 1 if ok else 0

    try:
        from loguru import logger
        logger.remove()
    except Exception:
        pass
    t0 = time.time()
    tier = args.tier if args.tier in ("quick", "thorough") else "quick"
    jobs = mod.jobs(tier, seed)
    if args.only:
        jobs = [j for j in jobs if args.only in j["name"]]
    results = run_jobs(prop, jobs, args.workers, getattr(mod, "JOB_TIMEOUT", {}).get(tier, 1800))

    agg = dict(obligations=0, discharged=0, trivial=0, solver_s=0.0, reach_ok=0, paths=0, queries=0)
    inconclusive, violations, samples, reach_fail, fatal = [], [], [], [], []
    kinds = {}
    extra = {}
    for r in results:
        if r is None or "fatal" in r:
            fatal.append(r)
            continue
        for k in ("obligations", "discharged", "trivial", "solver_s", "reach_ok"):
            agg[k] += r.get(k, 0)
        inconclusive += [dict(x, job=r["job"]["name"]) for x in r.get("inconclusive", [])]
        violations += r.get("violations", [])
        reach_fail += [dict(x, job=r["job"]["name"]) for x in r.get("reach_fail", [])]
        if len(samples) < 6:
            samples += r.get("samples", [])[:2]
        for k, v in r.get("kinds", {}).items():
            kinds[k] = kinds.get(k, 0) + v
        for k, v in r.get("extra", {}).items():
            if isinstance(v, (int, float)):
                extra[k] = extra.get(k, 0) + v
            elif isinstance(v, list):
                extra.setdefault(k, [])
                extra[k] = (extra[k] + v)[:8]
            else:
                extra[k] = v

    # --- counterexamples: replay on the real code before reporting --------------------------------
    known = load_known(prop)
    confirmed, unconfirmed, known_hits = [], [], {}
    by_key = {}
    for v in violations:
        by_key.setdefault(mod.finding_key(v), []).append(v)
    rdir = OUT / "replays" / prop
    for key, vs in by_key.items():
        reproduced = None
        for v in vs[:3]:
            rdir.mkdir(parents=True, exist_ok=True)
            blob = json.dumps(v, sort_keys=True)
            path = rdir / (hashlib.sha1(blob.encode()).hexdigest()[:12] + ".json")
            path.write_text(blob)
            d = int(v["job"].get("devices", 1))
            try:
                cp = subprocess.run([PY, "-m", "mdpv.main", prop, "--replay", str(path)], env=base_env(d),
                                    cwd=str(ROOT), capture_output=True, text=True, timeout=1800)
                lines = [l for l in cp.stdout.splitlines() if l.startswith(("REPRODUCED:", "NOT REPRODUCED:"))]
                rc, out = cp.returncode, lines[-1:] or [("replay crashed: " + " ".join(cp.stderr[-400:].split()))]
            except subprocess.TimeoutExpired:
                rc, out = 2, ["replay timed out"]
            if rc == 1 and out and out[0].startswith("REPRODUCED:"):
                reproduced = (path, out[0], v)
                break
            unconfirmed.append({"key": key, "replay": str(path), "output": out[0] if out else "", "rc": rc})
        if reproduced:
            if key in known:
                known_hits[key] = (known[key], len(vs))
            else:
                confirmed.append((key, reproduced, len(vs)))

    wall = time.time() - t0
    for key, (f, n) in sorted(known_hits.items()):
        print(f"KNOWN-FINDING: property={prop} {f['what']} [key={key}; {n} counterexample(s) this run]")
    for key, (path, out, v), n in confirmed:
        print(f"VIOLATION property={prop} replay={path}")
        print(f"  obligation={v['obligation']} job={v['job']['name']} key={key} ({n} counterexample(s)); {out}")
    for u in unconfirmed:
        print(f"UNCONFIRMED counterexample (harness error): {u}")
    for f in fatal:
        print(f"HARNESS-ERROR: job={(f or {}).get('job', {}).get('name')} {str((f or {}).get('fatal'))[:200]!r} ... "
              f"{str((f or {}).get('fatal'))[-600:]!r}")
    for x in inconclusive[:20]:
        print(f"INCONCLUSIVE: {json.dumps(x)[:400]}")
    for x in reach_fail[:20]:
        print(f"VACUOUS? reachability twin failed: {x}")

    nontrivial = agg["obligations"] - agg["trivial"]
    ev = {
        "property_id": prop,
        "tier": tier,
        "seed": seed,
        "level": getattr(mod, "LEVEL", "model_checking"),
        "coverage": {
            "evaluations": agg["obligations"] + agg["reach_ok"] + len(reach_fail),
            "distinct_nontrivial": nontrivial,
            "rule": getattr(mod, "RULE", "") + " One evaluation = one SMT query (obligation or reachability "
                    "twin); non-trivial = the negated goal did not fold to `false` syntactically before "
                    "reaching the solver; distinct = distinct (job, obligation name).",
            "samples": samples[:6] or [{"note": "no unsat sample recorded"}],
            "obligations": agg["obligations"],
            "discharged": agg["discharged"],
            "inconclusive": len(inconclusive) + len(fatal) + len(unconfirmed),
            "obligation_kinds": kinds,
            "reachability_twins_sat": agg["reach_ok"],
            "reachability_twins_failed": len(reach_fail),
            "jobs": len(jobs),
            "job_names": [j["name"] for j in jobs][:60],
            "solver": "z3 " + _z3_version(),
            "solver_time_s": round(agg["solver_s"], 2),
            "functions_encoded": getattr(mod, "FUNCTIONS", []),
            "bounds": mod.bounds(tier) if hasattr(mod, "bounds") else {},
            "outside_bounds": getattr(mod, "OUTSIDE", ""),
            "exhaustive": False,
            "explanation": getattr(mod, "EXPLANATION", ""),
            "known_findings_reproduced": sorted(known_hits),
            "counterexamples_total": len(violations),
            "extra": extra,
        },
        "assumptions": getattr(mod, "ASSUMPTIONS", []),
        "wall_s": round(wall, 2),
        "violations": len(confirmed),
    }
    edir = OUT / "evidence"
    edir.mkdir(parents=True, exist_ok=True)
    (edir / f"{prop}.json").write_text(json.dumps(ev, indent=1))
    print(f"{prop} tier={tier}: jobs={len(jobs)} obligations={agg['obligations']} discharged={agg['discharged']} "
          f"inconclusive={len(inconclusive)} cex={len(violations)} confirmed={len(confirmed)} "
          f"known={len(known_hits)} solver={agg['solver_s']:.1f}s wall={wall:.1f}s")
    if confirmed:
        return 1
    if fatal or inconclusive or unconfirmed or reach_fail or agg["obligations"] == 0:
        return 2
    return 0


def _z3_version():
    try:
        import z3
        return z3.get_version_string()
    except Exception:
        return "?"


if __name__ == "__main__":
    sys.exit(main())

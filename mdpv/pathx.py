"""Path explorer (depth-first, by re-execution) and symbolic host scalars.

A Python `if x < y:` on a symbolic value calls `branch(cond)`: both sides are tested for
feasibility against the current path condition; the untaken feasible side is queued as a decision
prefix to replay.  Exceptions raised by the code under test are path outcomes, not errors.
"""
from __future__ import annotations

import time
from fractions import Fraction

import z3

from . import zx
from .zx import Unsupported


class PathAbort(BaseException):
    """Current path is infeasible / abandoned (BaseException so the code under test cannot eat it)."""


class Outcome:
    def __init__(self, pc, value=None, exc=None, decisions=None, notes=None):
        self.pc = pc
        self.value = value
        self.exc = exc
        self.decisions = decisions or []
        self.notes = notes or {}

    def __repr__(self):
        return f"Outcome(decisions={self.decisions}, exc={self.exc!r})"


CUR = None  # the active Explorer


class Explorer:
    def __init__(self, timeout_ms=30000, max_paths=2000, catch=(Exception,)):
        self.timeout_ms = timeout_ms
        self.max_paths = max_paths
        self.catch = catch
        self.stats = dict(paths=0, feas_queries=0, infeasible_aborts=0, solver_s=0.0)

    # -- driver ---------------------------------------------------------------------------------
    def explore(self, fn, pre=()):
        global CUR
        worklist = [[]]
        while worklist:
            if self.stats["paths"] >= self.max_paths:
                raise Unsupported(f"more than {self.max_paths} paths")
            prefix = worklist.pop()
            self.decisions = list(prefix)
            self.pos = 0
            self.pc = list(pre)
            self._pcset = {self._key(c) for c in self.pc}
            self.pending = []
            self.notes = {}
            prev, CUR = CUR, self
            prev_guard, zx.DIV_GUARD = zx.DIV_GUARD, self.branch
            out = None
            try:
                try:
                    val = fn()
                    out = Outcome(list(self.pc), value=val, decisions=list(self.decisions), notes=self.notes)
                except PathAbort:
                    self.stats["infeasible_aborts"] += 1
                except Unsupported:
                    raise
                except self.catch as e:  # outcome of the code under test
                    out = Outcome(list(self.pc), exc=e, decisions=list(self.decisions), notes=self.notes)
            finally:
                CUR = prev
                zx.DIV_GUARD = prev_guard
            worklist.extend(self.pending)
            if out is not None:
                self.stats["paths"] += 1
                yield out

    @staticmethod
    def _key(c):
        return c.get_id() if zx.is_z(c) else ("c", c)

    def _check(self, extra):
        s = z3.Solver()
        s.set("timeout", self.timeout_ms)
        s.add(*[c for c in self.pc if zx.is_z(c)])
        s.add(extra)
        t0 = time.time()
        r = s.check()
        self.stats["solver_s"] += time.time() - t0
        self.stats["feas_queries"] += 1
        if r == z3.unknown:
            raise Unsupported("feasibility query returned unknown")
        return r == z3.sat

    def implied(self, cond):
        """True iff the current path condition entails cond (no branching)."""
        if zx.conc(cond):
            return bool(cond)
        return not self._check(z3.Not(cond))

    def assume(self, cond):
        """Add a constraint to the current path; abort it if infeasible."""
        if zx.conc(cond):
            if not cond:
                raise PathAbort()
            return
        if not self._check(cond):
            raise PathAbort()
        self._push(cond)

    def _push(self, c):
        self.pc.append(c)
        self._pcset.add(self._key(c))

    def branch(self, cond):
        if zx.conc(cond):
            return bool(cond)
        cond = z3.simplify(cond)
        if z3.is_true(cond):
            return True
        if z3.is_false(cond):
            return False
        if self._key(cond) in self._pcset:
            return True
        ncond = z3.simplify(z3.Not(cond))
        if self._key(ncond) in self._pcset:
            return False
        if self.pos < len(self.decisions):
            d = self.decisions[self.pos]
            self.pos += 1
            self._push(cond if d else ncond)
            return d
        t = self._check(cond)
        f = self._check(ncond)
        if not t and not f:
            raise PathAbort()
        if t and f:
            self.pending.append(self.decisions[:self.pos] + [False])
        d = t
        # forced decisions are recorded too, so that a replayed prefix stays aligned
        self.decisions.append(d)
        self.pos += 1
        self._push(cond if d else ncond)
        return d

    def choose_int(self, term, lo=None, hi=None, limit=64):
        """Case split on the value of an integer term; returns a concrete int on each path."""
        if zx.conc(term):
            return int(term)
        vals = []
        s = z3.Solver()
        s.set("timeout", self.timeout_ms)
        s.add(*[c for c in self.pc if zx.is_z(c)])
        if lo is not None:
            s.add(term >= lo)
        if hi is not None:
            s.add(term <= hi)
        while len(vals) <= limit:
            r = s.check()
            self.stats["feas_queries"] += 1
            if r == z3.unknown:
                raise Unsupported("unknown while enumerating integer values")
            if r == z3.unsat:
                break
            v = s.model().eval(term, model_completion=True).as_long()
            vals.append(v)
            s.add(term != v)
        else:
            raise Unsupported(f"integer term has more than {limit} feasible values")
        if not vals:
            raise PathAbort()
        for v in sorted(vals):
            if self.branch(term == v):
                return v
        raise PathAbort()


def branch(cond):
    if CUR is None:
        if zx.conc(cond):
            return bool(cond)
        raise Unsupported("symbolic branch outside a path explorer")
    return CUR.branch(cond)


def note(key, value):
    if CUR is not None:
        CUR.notes.setdefault(key, []).append(value)


# ---------------------------------------------------------------------------------------------
# host scalars

def unwrap(x):
    if isinstance(x, (SymInt, SymReal, SymBool)):
        return x.e
    if isinstance(x, (bool, int, Fraction)):
        return x
    if isinstance(x, float):
        return zx.from_np_scalar(x)
    if hasattr(x, "val") and hasattr(x, "aval") and getattr(x, "shape", None) == ():
        return x.val[()]  # 0-d SymTracer
    if hasattr(x, "shape") and getattr(x, "shape") == ():
        import numpy as np
        return zx.from_np_scalar(np.asarray(x)[()])
    return NotImplemented


def wrap(e):
    if zx.is_bool_like(e):
        return SymBool(e)
    if zx.is_int_like(e):
        return SymInt(e)
    return SymReal(e)


def _is_arraylike(o):
    import numpy as np
    return isinstance(o, np.ndarray) or (hasattr(o, "shape") and getattr(o, "shape") != ())


class _Sym:
    __slots__ = ("e",)
    __hash__ = None
    __array_priority__ = 1000

    def __init__(self, e):
        self.e = e

    def __repr__(self):
        return f"{type(self).__name__}({self.e})"

    def __format__(self, spec):
        note("format_spec", spec)
        if spec:
            _validate_format_spec(spec)
        return "<sym>"


def _validate_format_spec(spec):
    # a format spec applied to a symbolic number must be valid for a float (what the real run formats)
    try:
        format(1.0, spec)
    except ValueError as e:
        raise ValueError(str(e))


def _binop(op, reflect=False):
    def f(self, o):
        if _is_arraylike(o):
            return NotImplemented
        ov = unwrap(o)
        if ov is NotImplemented:
            return NotImplemented
        return wrap(op(ov, self.e) if reflect else op(self.e, ov))
    return f


class SymBool(_Sym):
    def __bool__(self):
        return branch(self.e)

    def __and__(self, o):
        return SymBool(zx.land(self.e, unwrap(o)))

    __rand__ = __and__

    def __or__(self, o):
        return SymBool(zx.lor(self.e, unwrap(o)))

    __ror__ = __or__

    def __invert__(self):
        return SymBool(zx.lnot(self.e))

    def __eq__(self, o):
        return SymBool(zx.eq(self.e, unwrap(o)))

    def __ne__(self, o):
        return SymBool(zx.ne(self.e, unwrap(o)))


def _floordiv(x, y):
    if zx.is_int_like(x) and zx.is_int_like(y):
        if zx.conc(x) and zx.conc(y):
            return x // y
        # Python floor division; z3 '/' on Int is Euclidean -- equal when the divisor is positive
        if branch(zx.gt(y, 0)):
            return zx.Z(x) / zx.Z(y)
        if branch(zx.eq(y, 0)):
            raise ZeroDivisionError("integer division or modulo by zero")
        # negative divisor: floor(x/y) = -ceil(x/-y) = -((x + (-y) - 1) div (-y)) ... use identity
        ny = zx.neg(y)
        return zx.neg((zx.Z(zx.add(x, zx.sub(ny, 1)))) / zx.Z(ny))
    raise Unsupported("floor division on reals")


def _mod(x, y):
    if zx.is_int_like(x) and zx.is_int_like(y):
        if zx.conc(x) and zx.conc(y):
            return x % y
        if branch(zx.gt(y, 0)):
            return zx.Z(x) % zx.Z(y)
        if branch(zx.eq(y, 0)):
            raise ZeroDivisionError("integer division or modulo by zero")
        return zx.sub(x, zx.mul(y, _floordiv(x, y)))
    raise Unsupported("modulo on reals")


def _pow(x, n):
    if not zx.conc(n):
        raise Unsupported("symbolic exponent")
    if isinstance(n, Fraction) and n.denominator == 1:
        n = int(n)
    if not isinstance(n, int):
        raise Unsupported("non-integer exponent")
    return zx.ipow(x, n)


class _Num(_Sym):
    __add__ = _binop(zx.add)
    __radd__ = _binop(zx.add, True)
    __sub__ = _binop(zx.sub)
    __rsub__ = _binop(zx.sub, True)
    __mul__ = _binop(zx.mul)
    __rmul__ = _binop(zx.mul, True)
    __truediv__ = _binop(zx.truediv)
    __rtruediv__ = _binop(zx.truediv, True)
    __floordiv__ = _binop(_floordiv)
    __rfloordiv__ = _binop(_floordiv, True)
    __mod__ = _binop(_mod)
    __rmod__ = _binop(_mod, True)
    __pow__ = _binop(_pow)
    __lt__ = _binop(zx.lt)
    __le__ = _binop(zx.le)
    __gt__ = _binop(zx.gt)
    __ge__ = _binop(zx.ge)
    __eq__ = _binop(zx.eq)
    __ne__ = _binop(zx.ne)

    def __neg__(self):
        return wrap(zx.neg(self.e))

    def __pos__(self):
        return self

    def __abs__(self):
        return wrap(zx.sabs(self.e))

    def __bool__(self):
        return branch(zx.ne(self.e, 0))


class SymInt(_Num):
    def __hash__(self):
        # dict / set look-ups concretise the value (case split through the explorer)
        return hash(self.__index__())

    def __index__(self):
        if CUR is None:
            raise Unsupported("int() of a symbolic integer outside an explorer")
        return CUR.choose_int(self.e)

    __int__ = __index__


class SymReal(_Num):
    pass


def sym_int(name):
    return SymInt(z3.Int(name))


def sym_real(name):
    return SymReal(z3.Real(name))


def sym_bool(name):
    return SymBool(z3.Bool(name))

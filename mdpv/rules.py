"""Primitive rules over numpy object arrays (see zx.py) and a jaxpr interpreter.

Values flowing through the interpreter are either concrete numpy arrays or object arrays whose
elements are Python numbers / z3 terms.  An equation whose inputs are all concrete is executed by
JAX itself.  Data movement with concrete indices is *routed by address labels*: the same primitive
with the same parameters is bound on an integer label array, so JAX decides which input element
lands where.
"""
from __future__ import annotations

import itertools

import jax
import jax.numpy as jnp
import numpy as np
import z3
from jax._src import core
from jax._src.lax.slicing import GatherScatterMode

from . import zx
from .zx import Unsupported, ew, is_sym, to_obj

RULES = {}
STATS = {"prims": {}}
EXACT = [False]   # exact mode (set by trace.symbolic(exact=True)): concrete float arithmetic is done on rationals
EXACT_PRIMS = {"add", "sub", "mul", "div", "neg", "dot_general", "reduce_sum", "reduce_max", "reduce_min", "max", "min", "select_n",
               "integer_pow", "square", "abs", "cumsum", "clamp"}


def _exact_worthwhile(invals):
    fl = False
    for a in invals:
        a = np.asarray(a)
        if a.size > 20000:
            return False
        if np.issubdtype(a.dtype, np.floating):
            if not np.isfinite(a).all():
                return False
            fl = True
    return fl


def rule(*names):
    def deco(f):
        for n in names:
            RULES[n] = f
        return f
    return deco


def _concrete(x):
    return not is_sym(x)


def _as_np(x):
    return x if is_sym(x) else np.asarray(x)


# ---------------------------------------------------------------------------------------------
# elementwise

def _bin(fn):
    return lambda a, b, **k: ew(fn, a, b)


def _un(fn):
    return lambda a, **k: ew(fn, a)


RULES["add"] = _bin(zx.add)
RULES["add_any"] = _bin(zx.add)
RULES["sub"] = _bin(zx.sub)
RULES["mul"] = _bin(zx.mul)
RULES["div"] = _bin(zx.div)
RULES["rem"] = _bin(zx.rem)
RULES["max"] = _bin(zx.smax)
RULES["min"] = _bin(zx.smin)
RULES["lt"] = _bin(zx.lt)
RULES["le"] = _bin(zx.le)
RULES["gt"] = _bin(zx.gt)
RULES["ge"] = _bin(zx.ge)
RULES["eq"] = _bin(zx.eq)
RULES["ne"] = _bin(zx.ne)
RULES["and"] = _bin(zx.land)
RULES["or"] = _bin(zx.lor)
RULES["not"] = _un(zx.lnot)
RULES["neg"] = _un(zx.neg)
RULES["abs"] = _un(zx.sabs)
RULES["sign"] = _un(zx.sign)
RULES["exp"] = _un(zx.exp)
RULES["log"] = _un(zx.ln)
RULES["floor"] = _un(zx.floor)
RULES["square"] = _un(lambda x: zx.mul(x, x))
RULES["copy"] = lambda a, **k: a
RULES["copy_p"] = lambda a, **k: a
RULES["stop_gradient"] = lambda a, **k: a
RULES["real"] = lambda a, **k: a


@rule("integer_pow")
def _integer_pow(a, y, **k):
    return ew(lambda x: zx.ipow(x, int(y)), a)


@rule("pow")
def _pow(a, b, **k):
    if is_sym(b) and zx.has_z(b):
        raise Unsupported("pow with symbolic exponent")
    bb = np.asarray(zx.to_concrete(b, float) if is_sym(b) else b)
    if not np.all(bb == np.round(bb)):
        raise Unsupported("pow with non-integer exponent on a symbolic base")
    return ew(lambda x, e: zx.ipow(x, int(e)), a, bb.astype(np.int64))


@rule("select_n")
def _select_n(p, *cases, **k):
    if len(cases) == 2:
        return ew(lambda c, f, t: zx.ite(zx.to_bool(c) if zx.is_bool_like(c) else zx.ne(c, 0), t, f),
                  p, cases[0], cases[1])

    def sel(c, *cs):
        r = cs[-1]
        for i in range(len(cs) - 2, -1, -1):
            r = zx.ite(zx.eq(c, i), cs[i], r)
        return r
    return ew(sel, p, *cases)


@rule("clamp")
def _clamp(lo, x, hi, **k):
    return ew(lambda l, v, h: zx.smin(zx.smax(v, l), h), lo, x, hi)


@rule("convert_element_type")
def _convert(a, new_dtype, **k):
    nd = np.dtype(new_dtype)
    if nd == np.bool_:
        return ew(zx.to_bool, a)
    if np.issubdtype(nd, np.integer):
        bits = nd.itemsize * 8
        out = ew(zx.to_int_trunc, a)
        if bits < 32:
            # narrow integer types wrap (uint8: mod 256; int8/int16: two's complement); int32/int64 are modelled as Z
            lo, hi = (0, 2 ** bits - 1) if nd.kind == "u" else (-2 ** (bits - 1), 2 ** (bits - 1) - 1)
            out = ew(lambda x: zx.wrap_int(x, lo, hi), out)
        return out
    if np.issubdtype(nd, np.floating):
        return ew(zx.to_real, a)
    raise Unsupported(f"convert to {nd}")


# ---------------------------------------------------------------------------------------------
# data movement: routing by address labels

def _route(prim, params, operands, concrete_args_builder):
    """operands: list of object arrays that are 'moved'. Labels of operand k are offset so they are
    globally unique.  concrete_args_builder(label_arrays) -> positional args for prim.bind."""
    objs = [to_obj(o) for o in operands]
    labels = []
    off = 0
    flat = []
    for o in objs:
        labels.append(np.arange(off, off + o.size, dtype=np.int32).reshape(o.shape))
        off += o.size
        flat.extend(o.flat)
    args = concrete_args_builder([jnp.asarray(l) for l in labels])
    with core.set_current_trace(core.eval_trace):
        out = prim.bind(*args, **params)
    outs = out if prim.multiple_results else [out]
    res = []
    for o in outs:
        o = np.asarray(o)
        r = np.empty(o.shape, dtype=object)
        for idx in np.ndindex(o.shape):
            lab = int(o[idx])
            if 0 <= lab < off:
                r[idx] = flat[lab]
            else:
                r[idx] = _oob_symbol(flat[0] if flat else 0)
        res.append(r)
    return res if prim.multiple_results else res[0]


_OOB_COUNT = [0]


def _oob_symbol(like):
    """An out-of-bounds / fill read: an unconstrained fresh value (sound over-approximation)."""
    _OOB_COUNT[0] += 1
    n = f"oob!{_OOB_COUNT[0]}"
    if zx.is_bool_like(like):
        return z3.Bool(n)
    if zx.is_int_like(like):
        return z3.Int(n)
    return z3.Real(n)


def _simple_route(name):
    def f(a, _prim=None, **params):
        return _route(_prim, params, [a], lambda ls: ls)
    return f


for _n in ("squeeze", "reshape", "broadcast_in_dim", "slice", "rev", "transpose", "expand_dims",
           "reduce_precision"):
    RULES[_n] = _simple_route(_n)


@rule("stack")
def _stack(*xs, axis, **k):
    return np.stack([to_obj(x) for x in xs], axis=axis)


@rule("concatenate")
def _concatenate(*xs, dimension, **k):
    return np.concatenate([to_obj(x) for x in xs], axis=dimension)


@rule("pad")
def _pad(a, padval, padding_config, **k):
    a = to_obj(a)
    pv = to_obj(padval)[()]
    for (lo, hi, interior) in padding_config:
        if interior != 0 or lo < 0 or hi < 0:
            raise Unsupported("pad with interior/negative padding")
    shape = [lo + s + hi for s, (lo, hi, _) in zip(a.shape, padding_config)]
    out = zx.obj_full(shape, pv)
    out[tuple(slice(lo, lo + s) for s, (lo, hi, _) in zip(a.shape, padding_config))] = a
    return out


@rule("split")
def _split(a, sizes, axis, **k):
    a = to_obj(a)
    outs, start = [], 0
    for s in sizes:
        outs.append(np.take(a, range(start, start + s), axis=axis))
        start += s
    return outs


@rule("iota")
def _iota(**k):
    raise Unsupported("iota has no inputs and is always concrete")


def _idx_concrete(ix):
    return not (is_sym(ix) and zx.has_z(ix))


def _idx_np(ix):
    if is_sym(ix):
        return zx.to_concrete(ix, np.int64)
    return np.asarray(ix)


@rule("dynamic_slice")
def _dynamic_slice(operand, *start, slice_sizes, **k):
    operand = to_obj(operand)
    starts = [to_obj(s)[()] for s in start]
    if all(zx.conc(s) for s in starts):
        st = [min(max(int(s), 0), operand.shape[d] - slice_sizes[d]) for d, s in enumerate(starts)]
        return operand[tuple(slice(s, s + n) for s, n in zip(st, slice_sizes))]
    out = np.empty(tuple(slice_sizes), dtype=object)

    def sel(prefix, off):
        d = len(prefix)
        if d == operand.ndim:
            return operand[tuple(prefix)]
        s = starts[d]
        hi = operand.shape[d] - slice_sizes[d]
        if zx.conc(s):
            return sel(prefix + [min(max(int(s), 0), hi) + off[d]], off)
        r = sel(prefix + [hi + off[d]], off)
        for c in range(hi - 1, -1, -1):
            r = zx.ite(zx.le(s, c), sel(prefix + [c + off[d]], off), r)
        return r
    for o in np.ndindex(out.shape):
        out[o] = sel([], list(o))
    return out


@rule("dynamic_update_slice")
def _dynamic_update_slice(operand, update, *start, **k):
    operand = to_obj(operand).copy()
    update = to_obj(update)
    starts = [to_obj(s)[()] for s in start]
    if all(zx.conc(s) for s in starts):
        st = [min(max(int(s), 0), operand.shape[d] - update.shape[d]) for d, s in enumerate(starts)]
        operand[tuple(slice(s, s + n) for s, n in zip(st, update.shape))] = update
        return operand
    # symbolic start: every cell is an ite over the clamped start positions
    cl = []
    for d, s in enumerate(starts):
        hi = operand.shape[d] - update.shape[d]
        cl.append(s if zx.conc(s) and 0 <= int(s) <= hi else zx.smin(zx.smax(s, 0), hi))
    out = operand.copy()
    for I in np.ndindex(operand.shape):
        r = operand[I]
        for U in np.ndindex(update.shape):
            cond = True
            for d in range(operand.ndim):
                cond = zx.land(cond, zx.eq(cl[d], I[d] - U[d])) if I[d] - U[d] >= 0 else False
                if cond is False:
                    break
            if cond is not False:
                r = zx.ite(cond, update[U], r)
        out[I] = r
    return out


def _gather_out_shape(operand, indices, dn, slice_sizes):
    batch_shape = indices.shape[:-1]
    collapsed = set(dn.collapsed_slice_dims) | set(getattr(dn, "operand_batching_dims", ()))
    win_dims = [d for d in range(operand.ndim) if d not in collapsed]
    out_rank = len(batch_shape) + len(win_dims)
    out_shape, bi, wi = [], iter(batch_shape), iter([slice_sizes[d] for d in win_dims])
    for d in range(out_rank):
        out_shape.append(next(wi) if d in dn.offset_dims else next(bi))
    return tuple(out_shape), win_dims


@rule("gather")
def _gather(operand, indices, *, dimension_numbers, slice_sizes, mode, fill_value=None, **k):
    dn = dimension_numbers
    operand = to_obj(operand)
    indices = to_obj(indices)
    mode = GatherScatterMode.from_any(mode)
    out_shape, win_dims = _gather_out_shape(operand, indices, dn, slice_sizes)
    out = np.empty(out_shape, dtype=object)
    batch_pos = [d for d in range(len(out_shape)) if d not in dn.offset_dims]
    obd = tuple(getattr(dn, "operand_batching_dims", ()))
    sibd = tuple(getattr(dn, "start_indices_batching_dims", ()))
    sim = tuple(dn.start_index_map)
    like = operand.flat[0] if operand.size else 0
    for O in np.ndindex(*out_shape):
        G = tuple(O[d] for d in batch_pos)
        off = [0] * operand.ndim
        for n, d in enumerate(win_dims):
            off[d] = O[dn.offset_dims[n]]
        start = [0] * operand.ndim
        for kk, d in enumerate(sim):
            start[d] = indices[G + (kk,)]
        for i, d in enumerate(obd):
            start[d] = G[sibd[i]]
        oob_conds = []

        def sel(prefix):
            d = len(prefix)
            if d == operand.ndim:
                return operand[tuple(prefix)]
            s = start[d]
            hi = operand.shape[d] - slice_sizes[d]
            if zx.conc(s):
                s = int(s)
                if mode == GatherScatterMode.FILL_OR_DROP and not (0 <= s <= hi):
                    oob_conds.append(True)
                c = min(max(s, 0), hi)
                return sel(prefix + [c + off[d]])
            if mode == GatherScatterMode.FILL_OR_DROP:
                oob_conds.append(zx.lor(zx.lt(s, 0), zx.gt(s, hi)))
            r = sel(prefix + [hi + off[d]])
            for c in range(hi - 1, -1, -1):
                r = zx.ite(zx.le(s, c), sel(prefix + [c + off[d]]), r)
            return r
        v = sel([])
        if oob_conds:
            c = False
            for oc in oob_conds:
                c = zx.lor(c, oc)
            if c is True:
                v = _oob_symbol(like)
            elif c is not False:
                v = zx.ite(c, _oob_symbol(like), v)
        out[O] = v
    return out


# how a scatter(set) with duplicate *symbolic or concrete* indices resolves: "last" or "first".
SCATTER_DUP_ORDER = ["last"]


def _scatter_general(combine, is_set):
    def f(operand, indices, updates, *, dimension_numbers, mode, **k):
        dn = dimension_numbers
        mode = GatherScatterMode.from_any(mode)
        out = to_obj(operand).copy()
        upd = to_obj(updates)
        ind = to_obj(indices)
        uwd = tuple(dn.update_window_dims)
        iwd = tuple(dn.inserted_window_dims)
        sd2od = tuple(dn.scatter_dims_to_operand_dims)
        obd = tuple(getattr(dn, "operand_batching_dims", ()))
        sibd = tuple(getattr(dn, "scatter_indices_batching_dims", ()))
        usd = [d for d in range(upd.ndim) if d not in uwd]
        win_operand_dims = [d for d in range(out.ndim) if d not in iwd and d not in obd]
        window_size = [1] * out.ndim
        for n, od in enumerate(win_operand_dims):
            window_size[od] = upd.shape[uwd[n]]
        order = list(np.ndindex(upd.shape))
        if is_set and SCATTER_DUP_ORDER[0] == "first":
            order = order[::-1]
        for U in order:
            G = tuple(U[d] for d in usd)
            W = [U[d] for d in uwd]
            base = [0] * out.ndim
            symb = {}
            for kk, od in enumerate(sd2od):
                v = ind[G + (kk,)]
                if mode == GatherScatterMode.CLIP:
                    hi = out.shape[od] - window_size[od]
                    v = min(max(int(v), 0), hi) if zx.conc(v) else zx.smin(zx.smax(v, 0), hi)
                if zx.conc(v):
                    base[od] = int(v)
                else:
                    symb[od] = v
            for i, od in enumerate(obd):
                base[od] = G[sibd[i]]
            woff = [0] * out.ndim
            for n, od in enumerate(win_operand_dims):
                woff[od] = W[n]
            # FILL_OR_DROP: the whole window must be in bounds, else the update is dropped
            inb = True
            for od in range(out.ndim):
                lo_ok_c = base[od] >= 0 and base[od] + window_size[od] <= out.shape[od]
                if od in symb:
                    inb = zx.land(inb, zx.land(zx.ge(symb[od], 0),
                                               zx.le(symb[od], out.shape[od] - window_size[od])))
                elif not lo_ok_c:
                    inb = False
            if inb is False:
                continue
            if not symb:
                I = tuple(b + w for b, w in zip(base, woff))
                out[I] = combine(out[I], upd[U])
                continue
            ranges = [range(out.shape[d]) if d in symb else [base[d] + woff[d]] for d in range(out.ndim)]
            for I in itertools.product(*ranges):
                cond = inb
                for d in symb:
                    cond = zx.land(cond, zx.eq(symb[d], I[d] - woff[d]))
                out[I] = zx.ite(cond, combine(out[I], upd[U]), out[I])
        return out
    return f


RULES["scatter-add"] = _scatter_general(zx.add, False)
RULES["scatter_add"] = RULES["scatter-add"]
RULES["scatter"] = _scatter_general(lambda old, u: u, True)
RULES["scatter-mul"] = _scatter_general(zx.mul, False)
RULES["scatter_mul"] = RULES["scatter-mul"]
RULES["scatter-max"] = _scatter_general(zx.smax, False)
RULES["scatter-min"] = _scatter_general(zx.smin, False)


# ---------------------------------------------------------------------------------------------
# reductions and contractions

def _reduce(fn, init=None):
    def f(a, axes, **k):
        a = to_obj(a)
        for ax in sorted([int(x) for x in axes], reverse=True):
            n = a.shape[ax]
            if n == 0:
                if init is None:
                    raise Unsupported("reduction over an empty axis without identity")
                a = zx.obj_full(a.shape[:ax] + a.shape[ax + 1:], init(a))
                continue
            parts = [np.take(a, i, axis=ax) for i in range(n)]
            acc = parts[0]
            for p in parts[1:]:
                acc = ew(fn, acc, p)
            if not isinstance(acc, np.ndarray):
                w = np.empty((), dtype=object)
                w[()] = acc
                acc = w
            a = acc
        return a
    return f


RULES["reduce_sum"] = _reduce(zx.add, lambda a: 0)
RULES["reduce_prod"] = _reduce(zx.mul, lambda a: 1)
RULES["reduce_max"] = _reduce(zx.smax)
RULES["reduce_min"] = _reduce(zx.smin)
RULES["reduce_and"] = _reduce(zx.land, lambda a: True)
RULES["reduce_or"] = _reduce(zx.lor, lambda a: False)


def _arg_reduce(better):
    def f(a, axes, index_dtype, **k):
        a = to_obj(a)
        (ax,) = axes
        ax = int(ax)
        n = a.shape[ax]
        parts = [np.take(a, i, axis=ax) for i in range(n)]
        parts = [p if isinstance(p, np.ndarray) else _scalar_arr(p) for p in parts]
        best = parts[0]
        idx = zx.obj_full(best.shape, 0)
        for i, p in enumerate(parts[1:], 1):
            b = ew(better, p, best)  # strict: the first extremum wins (XLA / numpy semantics)
            idx = ew(lambda c, old: zx.ite(c, i, old), b, idx)
            best = ew(zx.ite, b, p, best)
        return idx
    return f


def _scalar_arr(v):
    w = np.empty((), dtype=object)
    w[()] = v
    return w


RULES["argmax"] = _arg_reduce(zx.gt)
RULES["argmin"] = _arg_reduce(zx.lt)


def _cumulative(fn):
    def f(a, axis, reverse=False, **k):
        a = to_obj(a).copy()
        n = a.shape[axis]
        rng = range(n - 2, -1, -1) if reverse else range(1, n)
        for i in rng:
            prev = i + 1 if reverse else i - 1
            sl = [slice(None)] * a.ndim
            sp = list(sl)
            sl[axis] = i
            sp[axis] = prev
            a[tuple(sl)] = ew(fn, a[tuple(sp)], a[tuple(sl)])
        return a
    return f


RULES["cumsum"] = _cumulative(zx.add)
RULES["cumprod"] = _cumulative(zx.mul)
RULES["cummax"] = _cumulative(zx.smax)
RULES["cummin"] = _cumulative(zx.smin)


@rule("dot_general")
def _dot_general(a, b, dimension_numbers, **k):
    (ca, cb), (ba, bb) = dimension_numbers
    a, b = to_obj(a), to_obj(b)
    a_free = [i for i in range(a.ndim) if i not in ca and i not in ba]
    b_free = [i for i in range(b.ndim) if i not in cb and i not in bb]
    out_shape = [a.shape[i] for i in ba] + [a.shape[i] for i in a_free] + [b.shape[i] for i in b_free]
    out = np.empty(out_shape, dtype=object)
    csize = [a.shape[i] for i in ca]
    for oidx in np.ndindex(*out_shape):
        bi = oidx[:len(ba)]
        af = oidx[len(ba):len(ba) + len(a_free)]
        bf = oidx[len(ba) + len(a_free):]
        acc = 0 if zx.is_int_like(a.flat[0] if a.size else 0) and zx.is_int_like(b.flat[0] if b.size else 0) \
            else zx.Fraction(0)
        for cidx in np.ndindex(*csize):
            ai = [None] * a.ndim
            bj = [None] * b.ndim
            for n, d in enumerate(ba):
                ai[d] = bi[n]
            for n, d in enumerate(bb):
                bj[d] = bi[n]
            for n, d in enumerate(a_free):
                ai[d] = af[n]
            for n, d in enumerate(b_free):
                bj[d] = bf[n]
            for n, d in enumerate(ca):
                ai[d] = cidx[n]
            for n, d in enumerate(cb):
                bj[d] = cidx[n]
            acc = zx.add(acc, zx.mul(a[tuple(ai)], b[tuple(bj)]))
        out[oidx] = acc
    return out


@rule("sort")
def _sort(*operands, dimension, is_stable, num_keys, **k):
    ops = [to_obj(o) for o in operands]
    if num_keys != 1:
        raise Unsupported("sort with several keys")
    keys = ops[0]
    n = keys.shape[dimension]
    outs = [np.empty(o.shape, dtype=object) for o in ops]
    other = [range(s) for d, s in enumerate(keys.shape) if d != dimension]
    for rest in itertools.product(*other):
        def at(i):
            l = list(rest)
            l.insert(dimension, i)
            return tuple(l)
        ks = [keys[at(i)] for i in range(n)]
        # rank_i = #{j : k_j < k_i or (k_j == k_i and j < i)}  (stable ascending)
        ranks = []
        for i in range(n):
            r = 0
            for j in range(n):
                if j == i:
                    continue
                c = zx.lt(ks[j], ks[i]) if j > i else zx.le(ks[j], ks[i])
                r = zx.add(r, zx.ite(c, 1, 0))
            ranks.append(r)
        for o_in, o_out in zip(ops, outs):
            for pos in range(n):
                v = o_in[at(n - 1)]
                for i in range(n - 2, -1, -1):
                    v = zx.ite(zx.eq(ranks[i], pos), o_in[at(i)], v)
                o_out[at(pos)] = v
    return outs


# ---------------------------------------------------------------------------------------------
# jaxpr interpreter

def _closed(j):
    return (j.jaxpr, j.consts) if hasattr(j, "consts") else (j, ())


def eval_jaxpr(jaxpr, consts, *args):
    env = {}

    def read(v):
        if isinstance(v, core.Literal):
            return np.asarray(v.val)
        return env[v]
    for v, c in zip(jaxpr.constvars, consts):
        env[v] = _unwrap_const(c)
    for v, a in zip(jaxpr.invars, args):
        env[v] = _as_np(a)
    for eqn in jaxpr.eqns:
        invals = [read(v) for v in eqn.invars]
        outs = apply_primitive(eqn.primitive, invals, eqn.params)
        outs = outs if eqn.primitive.multiple_results else [outs]
        for v, o in zip(eqn.outvars, outs):
            env[v] = o
    return [read(v) for v in jaxpr.outvars]


def _unwrap_const(c):
    # a closed-over SymTracer ends up as a jaxpr constant
    val = getattr(c, "val", None)
    if val is not None and is_sym(val):
        return val
    return np.asarray(c)


_STRUCTURED = {}


def structured(*names):
    def deco(f):
        for n in names:
            _STRUCTURED[n] = f
        return f
    return deco


def apply_primitive(prim, invals, params):
    """invals: concrete numpy arrays or object arrays. Returns value(s) of the same kind."""
    name = prim.name
    STATS["prims"][name] = STATS["prims"].get(name, 0) + 1
    if name in _STRUCTURED:
        return _STRUCTURED[name](prim, invals, params)
    if not any(is_sym(x) for x in invals) and not (EXACT[0] and name in EXACT_PRIMS and name in RULES and _exact_worthwhile(invals)):
        with core.set_current_trace(core.eval_trace):
            outs = prim.bind(*[jnp.asarray(x) for x in invals], **params)
        if prim.multiple_results:
            return [np.asarray(o) for o in outs]
        return np.asarray(outs)
    r = RULES.get(name)
    if r is None and not any(zx.has_z(x) for x in invals if is_sym(x)):
        # exact-mode rationals reaching a primitive without a rule (special functions): evaluate in floating point
        conc = [zx.to_concrete(x, _obj_dtype(x)) if is_sym(x) else x for x in invals]
        with core.set_current_trace(core.eval_trace):
            outs = prim.bind(*[jnp.asarray(x) for x in conc], **params)
        return [np.asarray(o) for o in outs] if prim.multiple_results else np.asarray(outs)
    if r is None:
        return _via_decomposition(prim, invals, params)
    return r(*invals, _prim=prim, **params)


def _obj_dtype(x):
    e = next((v for v in x.flat), 0.0)
    return np.bool_ if zx.is_bool_like(e) else (np.int32 if zx.is_int_like(e) else np.float64)


def _aval_of(x):
    if is_sym(x):
        e = next((v for v in x.flat), 0)
        dt = jnp.bool_ if zx.is_bool_like(e) else (jnp.int32 if zx.is_int_like(e) else jnp.float64)
        return jax.ShapeDtypeStruct(x.shape, dt)
    x = np.asarray(x)
    return jax.ShapeDtypeStruct(x.shape, x.dtype)


def _via_decomposition(prim, invals, params):
    """Some primitives (e.g. clamp variants, erf_inv...) have no rule; try their jaxpr lowering."""
    with core.set_current_trace(core.eval_trace):
        jp = jax.make_jaxpr(lambda *a: prim.bind(*a, **params))(*[_aval_of(x) for x in invals])
    if len(jp.jaxpr.eqns) == 1 and jp.jaxpr.eqns[0].primitive is prim:
        raise Unsupported(f"no rule for primitive '{prim.name}' with symbolic inputs")
    outs = eval_jaxpr(jp.jaxpr, jp.consts, *invals)
    return outs if prim.multiple_results else outs[0]


@structured("jit", "pjit", "closed_call", "core_call", "remat", "checkpoint", "custom_lin")
def _s_call(prim, invals, params):
    j = params.get("jaxpr") or params.get("call_jaxpr")
    jx, jc = _closed(j)
    return eval_jaxpr(jx, jc, *invals)


@structured("custom_jvp_call", "custom_vjp_call", "custom_vjp_call_jaxpr")
def _s_custom(prim, invals, params):
    j = params.get("call_jaxpr") or params.get("fun_jaxpr") or params.get("jaxpr")
    jx, jc = _closed(j)
    return eval_jaxpr(jx, jc, *invals)


@structured("scan")
def _s_scan(prim, invals, params):
    p = params
    jx, jc = _closed(p["jaxpr"])
    if "ft_in" in p:
        consts, carry, xs = [list(t) for t in p["ft_in"].update(list(invals)).unpack()]
    else:
        nc, ncar = p["num_consts"], p["num_carry"]
        consts, carry, xs = list(invals[:nc]), list(invals[nc:nc + ncar]), list(invals[nc + ncar:])
    ncar = len(carry)
    ys = []
    rng = list(range(p["length"]))
    if p["reverse"]:
        rng = rng[::-1]
    for t in rng:
        outs = eval_jaxpr(jx, jc, *consts, *carry, *[x[t] for x in xs])
        carry = outs[:ncar]
        ys.append(outs[ncar:])
    if p["reverse"]:
        ys = ys[::-1]
    stacked = []
    n_y = len(jx.outvars) - ncar
    for i in range(n_y):
        col = [y[i] for y in ys]
        if not col:
            av = jx.outvars[ncar + i].aval
            stacked.append(np.zeros((0,) + tuple(av.shape), dtype=av.dtype))
            continue
        if any(is_sym(c) for c in col):
            col = [to_obj(c) for c in col]
        stacked.append(np.stack(col, axis=0))
    return list(carry) + stacked


@structured("cond")
def _s_cond(prim, invals, params):
    branches = params["branches"]
    idx, ops = invals[0], invals[1:]
    if not is_sym(idx) or zx.conc(idx[()]):
        i = int(np.asarray(idx if not is_sym(idx) else idx[()]))
        i = min(max(i, 0), len(branches) - 1)
        jx, jc = _closed(branches[i])
        return eval_jaxpr(jx, jc, *ops)
    c = idx[()]
    results = []
    for b in branches:
        jx, jc = _closed(b)
        results.append(eval_jaxpr(jx, jc, *ops))
    outs = []
    for k in range(len(results[0])):
        def sel(*vals):
            r = vals[-1]
            for i in range(len(vals) - 2, -1, -1):
                cond = zx.lnot(c) if (zx.is_bool_like(c) and i == 0) else \
                    (zx.le(c, 0) if i == 0 else zx.eq(c, i))
                r = zx.ite(cond, vals[i], r)
            return r
        outs.append(ew(sel, *[r[k] for r in results]))
    return outs


@structured("while")
def _s_while(prim, invals, params):
    cj, cc = _closed(params["cond_jaxpr"])
    bj, bc = _closed(params["body_jaxpr"])
    ncc, nbc = params["cond_nconsts"], params["body_nconsts"]
    cconsts, bconsts, carry = list(invals[:ncc]), list(invals[ncc:ncc + nbc]), list(invals[ncc + nbc:])
    for _ in range(10000):
        (c,) = eval_jaxpr(cj, cc, *cconsts, *carry)
        if is_sym(c):
            v = c[()]
            if not zx.conc(v):
                raise Unsupported("while loop with symbolic trip count")
            c = v
        if not bool(np.asarray(c)):
            return carry
        carry = eval_jaxpr(bj, bc, *bconsts, *carry)
    raise Unsupported("while loop did not terminate in 10000 iterations")


@structured("shard_map")
def _s_shard_map(prim, invals, params):
    p = params
    mesh = p["mesh"]
    ((axis, size),) = tuple(mesh.shape.items())
    jx, jc = _closed(p["jaxpr"])

    def sharded(spec):
        return len(spec) > 0 and spec[0] is not None
    outs_per = []
    for d in range(size):
        ins = []
        for x, spec in zip(invals, p["in_specs"]):
            if sharded(spec):
                if x.shape[0] % size:
                    raise Unsupported("shard_map: leading axis not divisible by the mesh")
                n = x.shape[0] // size
                ins.append(x[d * n:(d + 1) * n])
            else:
                ins.append(x)
        outs_per.append(eval_jaxpr(jx, jc, *ins))
    res = []
    for i, spec in enumerate(p["out_specs"]):
        parts = [o[i] for o in outs_per]
        if any(is_sym(q) for q in parts):
            parts = [to_obj(q) for q in parts]
        res.append(np.concatenate(parts, axis=0) if sharded(spec) else parts[0])
    return res


@rule("unstack")
def _unstack(a, axis, **k):
    a = to_obj(a)
    outs = []
    for i in range(a.shape[axis]):
        p = np.take(a, i, axis=axis)
        outs.append(p if isinstance(p, np.ndarray) else _scalar_arr(p))
    return outs
RULES["device_put"] = lambda *xs, **k: list(xs)


@rule("is_finite")
def _is_finite(a, **k):
    # symbolic values are reals (finite by the number model); concrete +-inf/nan keep their IEEE answer
    return ew(lambda x: (not zx.is_special(x)) if zx.conc(x) else True, a)

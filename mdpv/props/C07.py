"""C07 - periodic value iteration: plain VI iterates with the documented period-span stop."""
from __future__ import annotations

import itertools
from fractions import Fraction

import jax
import jax.numpy as jnp
import numpy as np
import z3

from .. import kit, pathx, zx
from ..harness import Obligations, tofloat, unq
from ..stubs.common import span_terms
from ..trace import SymTracer, lift, sym, symbolic, val_of
from .C08 import shadowed
from .C04 import unichain_aperiodic

ID = "C07"
LEVEL = "model_checking"
FUNCTIONS = ["PeriodicValueIteration.solve", "PeriodicValueIteration._iteration_step", "PeriodicValueIteration._get_periodic_span",
             "PeriodicValueIteration._calculate_period_span_without_discount/_with_discount", "PeriodicValueIteration._initialize_solver_state_elements",
             "PeriodicValueIteration._clear_value_history", "PeriodicValueIteration._setup_convergence_testing", "ValueIteration._update_values (parts B, C)"]
RULE = ("Part A: one job per (period, gamma mode, history clearing); the sweep returns fresh unconstrained vectors V_1..V_N (N = 2*period+3, "
        "the circular buffer wraps at least twice); every host path (first n with measure < eps, or none) yields obligations comparing the "
        "code's measure with the documented one at every n. Part B: one real sweep vs the Bellman backup. Part C: real solve(2) with "
        "period 2, gamma 1 on every unichain successor structure (periodic chains included), optimal gain by its optimality equation.")
ASSUMPTIONS = [
    "Part A abstracts the sweep by fresh symbols per iteration (a sound over-approximation: the claim is about the buffer and the stop rule)",
    "`np` in the periodic module is shimmed so that the host-side history buffer can hold symbolic rows; `float`/get_convergence_format shadowed",
    "gamma in (0,1) symbolic or gamma = 1; epsilon > 0; S = 2 in part A; floats as reals",
    "Part C: deterministic transitions, unichain (single recurrent class per stationary policy, any period), S in {2,3}",
]
OUTSIDE = "period > 3; S > 3 in part C; stochastic kernels in part C; gamma = 0 (division by zero in the discount correction)"
EXPLANATION = "real periodic solve loop under the path explorer with the np shim; measures compared as terms by z3"
JOB_TIMEOUT = {"quick": 2400, "thorough": 7200}
S = 2


def bounds(tier):
    return {"partA": ("period 1..3" if tier == "quick" else "period 1..4 (5 at gamma=1)") + " (>=2 at gamma=1), N=2p+3 iterations, gamma symbolic in (0,1) or 1, clear on/off", "partB": "S3A2E2, bs 2, devices " + ("{1,2}" if tier == "quick" else "{1,2,3,4}"),
            "partC": "S2A2E1 / S3A2E1 all unichain deterministic structures, period 2, gamma 1"}


def jobs(tier, seed):
    out = []
    for p in ((1, 2, 3) if tier == "quick" else (1, 2, 3, 4, 5)):
        for gm in ("sym", "one"):
            if gm == "one" and p < 2:
                continue
            if gm == "sym" and p >= 5:
                continue   # gamma^(j-1) up to degree 10: a single job ran > 15 min, outside
            for clear in (False, True):
                out.append(dict(name=f"A-p{p}-g{gm}-clear{int(clear)}", kind="A", period=p, gmode=gm, clear=clear, devices=1, seed=seed, cost=5 * p))
    for dv in ((1, 2) if tier == "quick" else (1, 2, 3, 4)):
        out.append(dict(name=f"B-sweep-dev{dv}", kind="B", devices=dv, seed=seed, cost=3))
    out.append(dict(name="C-S2", kind="C", S=2, devices=1, seed=seed, cost=10))
    for ch in range(3):
        out.append(dict(name=f"C-S3-chunk{ch}", kind="C", S=3, chunk=(ch, 3), devices=1, seed=seed, cost=60))
    return out


def doc_measure(Vs, n, p, gam, gamma_one):
    if n < p:
        return float("inf")
    if gamma_one:
        return span_terms(Vs[n], Vs[n - p])
    acc = [0] * S
    for j in range(n - p + 1, n + 1):
        for i in range(S):
            d = zx.sub(Vs[j][i], Vs[j - 1][i])
            acc[i] = zx.add(acc[i], zx.Z(zx.to_real(d)) / (gam ** (j - 1)) if j > 1 else d)
    return span_terms(acc, [0] * S)


def run_job(job):
    ob = Obligations(job, default_timeout_ms=120000)
    return {"A": run_A, "B": run_B, "C": run_C}[job["kind"]](job, ob)


def run_A(job, ob):
    p = job["period"]
    N = 2 * p + 3
    gam, eps = z3.Real("gamma"), z3.Real("eps")
    one = job["gmode"] == "one"
    ex = pathx.Explorer(max_paths=100)
    Vs = [[z3.Real(f"V{j}_{i}") for i in range(S)] for j in range(N + 1)]

    def vec(j):
        a = np.empty((S,), dtype=object)
        for i in range(S):
            a[i] = Vs[j][i]
        return lift(a, jnp.float64)

    def run():
        pb = kit.make_tab(dict(S=S, A=2, E=1, bs=2), 0)
        with symbolic():
            pb.V0 = vec(0)   # the problem's own initial value estimates; the solver's real initialisation records them
            solver = kit.make_solver("pvi", pb, period=p, gamma=1.0 if one else 0.5, clear_value_history_on_convergence=job["clear"])
            pathx.CUR.assume(z3.And(eps > 0, gam > 0, gam < 1))
            if not one:
                solver.gamma = lift(gam)
            solver.epsilon = lift(eps)
            solver._setup_convergence_testing()
            cnt = [0]

            def fake_update(*a, **k):
                cnt[0] += 1
                return vec(cnt[0])
            solver._update_values = fake_update
            solver._extract_policy = lambda *a, **k: jnp.zeros((S, 1), dtype=jnp.int32)
            convs = []
            orig = solver._convergence_test_fn

            def rec(*a, **k):
                c = orig(*a, **k)
                convs.append(c if isinstance(c, float) else val_of(c).reshape(())[()])
                return c
            solver._convergence_test_fn = rec
            from loguru import logger
            msgs = []
            hid = logger.add(lambda m: msgs.append(str(m)), level="INFO")
            try:
                st = solver.solve(N)
            finally:
                logger.remove(hid)
            hist = None if solver.value_history is None else [list(val_of(r)) for r in solver.value_history.rows]
            return dict(convs=convs, n=cnt[0], it=st.info.iteration, vals=list(val_of(st.values)), hist=hist, hidx=solver.history_index,
                        reported=any("Convergence threshold reached" in m for m in msgs), thr=solver.conv_threshold, period=solver.period,
                        st_hist=st.info.value_history)
    outs = []
    with shadowed():
        try:
            for o in ex.explore(run):
                outs.append(o)
        except zx.Unsupported as e:
            # more host paths than the explorer's budget (the unchanged loop has at most 2 per sweep): what was explored is
            # still decided, the rest is reported as not covered
            ob.inconclusive.append({"obligation": "path-exploration", "reason": str(e), "solver_s": 0})
    ob.extra["paths"] = len(outs)
    stops = set()
    for pi_, o in enumerate(outs):
        if o.exc is not None:
            from ..harness import exc_origin
            if exc_origin(o.exc) == "harness":
                ob.fail_harness(f"harness raised: {o.exc!r}")
                continue
            ob.prove(f"no-exception[path{pi_}]", o.pc, False, cex=lambda m, o=o: dict(kind="A", exc=repr(o.exc)))
            continue
        r = o.value
        pc = o.pc
        n = r["n"]
        stops.add(n if r["reported"] else None)
        ob.reach(f"path{pi_}", pc)

        def cexf(m, r=r):
            return dict(kind="A", period=p, gamma=1.0 if one else zx.model_value(m, gam), eps=zx.model_value(m, eps), clear=job["clear"],
                        outs=[[zx.model_value(m, x) for x in Vs[j]] for j in range(0, N + 1)])
        ob.prove(f"threshold==eps[path{pi_}]", pc, zx.eq(val_of(r["thr"]).reshape(())[()], eps), cex=cexf)
        ob.prove(f"iteration==sweeps[path{pi_}]", [], r["it"] == n and len(r["convs"]) == n, cex=cexf)
        for i in range(S):
            ob.prove(f"values==V_n[path{pi_},{i}]", pc, zx.eq(r["vals"][i], Vs[n][i]), cex=cexf, kind="returned values are the last iterate")
        for k in range(1, n + 1):
            dm = doc_measure(Vs, k, p, gam, one)
            cm = r["convs"][k - 1]
            if isinstance(dm, float) or isinstance(cm, float):
                ob.prove(f"measure[path{pi_},n{k}]", [], isinstance(dm, float) and isinstance(cm, float) and dm == cm, cex=cexf,
                         kind="no stop before a full period has elapsed (measure = inf)")
            else:
                ob.prove(f"measure[path{pi_},n{k}]", pc, zx.eq(cm, dm), cex=cexf, kind="code's measure == documented period measure")
            if not isinstance(dm, float):
                if k < n:
                    ob.prove(f"continued=>measure>=eps[path{pi_},n{k}]", pc, zx.ge(dm, eps), cex=cexf, kind="continues only while measure >= eps")
                elif r["reported"]:
                    ob.prove(f"stop=>measure<eps[path{pi_},n{k}]", pc, zx.lt(dm, eps), cex=cexf, kind="stops only when measure < eps")
                else:
                    ob.prove(f"limit=>measure>=eps[path{pi_},n{k}]", pc, zx.ge(dm, eps), cex=cexf, kind="reaching the limit means measure >= eps")
        ob.prove(f"stop-not-before-period[path{pi_}]", [], (not r["reported"]) or n >= p, cex=cexf, kind="never converges before `period` sweeps")
        # circular buffer content: slot (n - j) mod (p+1) holds V_{n-j} for j = 0..min(p, n)
        if r["hist"] is not None:
            ob.prove(f"history-index[path{pi_}]", [], r["hidx"] == n % (p + 1), cex=cexf, kind="history index == sweeps mod (period+1)")
            for j in range(0, min(p, n) + 1):
                slot = (n - j) % (p + 1)
                for i in range(S):
                    ob.prove(f"history-slot[path{pi_},{j},{i}]", pc, zx.eq(r["hist"][slot][i], Vs[n - j][i]), cex=cexf,
                             kind="circular buffer holds the last period+1 iterates")
        if r["reported"]:
            ob.prove(f"history-cleared-iff-configured[path{pi_}]", [], (r["st_hist"] is None) == job["clear"], cex=cexf,
                     kind="history cleared on convergence exactly when configured")
    ob.prove("stop-at-every-n>=period-explored", [], all(k in stops for k in range(p, N + 1)) and None in stops)
    return ob.result()


def run_B(job, ob):
    from .C02 import sweep_obligations
    cfg = dict(S=3, A=2, E=2, ds=2, da=1, de=1, offset=1, prob_array=True, bs=2)
    pb = kit.make_tab(cfg, job["seed"])
    ex = pathx.Explorer()
    h = {}

    def run():
        with symbolic():
            solver = kit.make_solver("pvi", pb, period=2, max_batch_size=2, gamma=0.9)
            L = h["L"] = kit.Lifted(pb)
            pathx.CUR.assume(z3.And(*L.pre))
            V = sym("V", (3,))
            solver.values = V
            solver.gamma = sym("gamma")
            solver.iteration = 1  # below the period: the measure is inf, no arithmetic on it
            new, conv = solver._iteration_step()
            solver.values = new
            pol = solver._extract_policy()
            return val_of(new), val_of(pol), val_of(V), val_of(solver.gamma)[()], conv, np.asarray(pb.action_space)
    with shadowed():
        for o in ex.explore(run):
            if o.exc is not None:
                from ..harness import exc_origin
                if exc_origin(o.exc) == "harness":
                    ob.fail_harness(f"harness raised: {o.exc!r}")
                    continue
                ob.fail_harness(f"raised: {o.exc!r}")
                continue
            new, pol, V, g, conv, asp = o.value
            L = h["L"]
            ob.reach("path", o.pc)
            B = kit.bellman(L, V, g)
            for i in range(3):
                ob.prove(f"iterate==bellman[{i}]", o.pc, zx.eq(new[i], B[i]), kind="periodic VI iterate == standard VI backup",
                         cex=lambda m: dict(kind="B"))
            # policy greedy for the *returned* values (extraction runs on self.values == new)
            Q2 = kit.q_values(L, list(new), g)
            for i in range(3):
                member, idx = kit.policy_row_index(list(pol[i]), asp)
                ob.prove(f"policy-greedy-for-returned-values[{i}]", o.pc, zx.land(member, zx.eq(kit.lookup(Q2[i], idx), kit.zmax_list(Q2[i]))),
                         cex=lambda m: dict(kind="B"))
    return ob.result()


def unichain(T):
    S_, A_, _ = T.shape
    for pol in itertools.product(range(A_), repeat=S_):
        nxt = [int(T[i, pol[i], 0]) for i in range(S_)]
        cycles = set()
        for i in range(S_):
            seen, u = [], i
            while u not in seen:
                seen.append(u)
                u = nxt[u]
            cycles.add(frozenset(seen[seen.index(u):]))
        if len(cycles) != 1:
            return False
    return True


def run_C(job, ob):
    S_ = job["S"]
    A_, E_ = 2, 1
    eps = z3.Real("eps")
    ex = pathx.Explorer(max_paths=50)
    h = {}

    def run():
        pb = kit.make_tab(dict(S=S_, A=A_, E=E_, bs=2), job["seed"])
        P = np.ones((S_, A_, E_))
        pb.P = jnp.asarray(P)
        with symbolic():
            L = h["L"] = kit.Lifted(pb, lift_P=False)
            pathx.CUR.assume(z3.And(*(L.pre + [eps > 0])))
            solver = kit.make_solver("pvi", pb, period=2, gamma=1.0, max_batch_size=2, clear_value_history_on_convergence=False)
            V0 = sym("V", (S_,))
            solver.values = V0
            solver.value_history[0] = V0
            solver.epsilon = lift(eps)
            solver._setup_convergence_testing()
            from loguru import logger
            msgs = []
            hid = logger.add(lambda m: msgs.append(str(m)), level="INFO")
            try:
                st = solver.solve(2)
            finally:
                logger.remove(hid)
            return dict(vals=val_of(st.values), V0=val_of(V0), it=st.info.iteration, reported=any("Convergence threshold reached" in m for m in msgs))
    with shadowed():
        outs = list(ex.explore(run))
    L = h["L"]
    Tvars = list(L.Tvec.reshape(-1))
    structures = [t for t in itertools.product(range(S_), repeat=S_ * A_ * E_) if unichain(np.array(t).reshape(S_, A_, E_))]
    if job.get("chunk"):
        structures = structures[job["chunk"][0]::job["chunk"][1]]
    ob.extra["structures"] = len(structures)
    periodic = sum(1 for t in structures if not unichain_aperiodic(np.array(t).reshape(S_, A_, E_), np.ones((S_, A_, E_))))
    ob.extra["periodic_structures"] = periodic
    gs = z3.Real("g_star")
    hs = [z3.Real(f"h{i}") for i in range(S_)]
    nconv = 0
    for pi_, o in enumerate(outs):
        if o.exc is not None:
            from ..harness import exc_origin
            if exc_origin(o.exc) == "harness":
                ob.fail_harness(f"harness raised: {o.exc!r}")
                continue
            ob.fail_harness(f"raised: {o.exc!r}")
            continue
        r = o.value
        if not (r["reported"] and r["it"] == 2):
            continue
        nconv += 1
        pcz = z3.And(*[c for c in o.pc if zx.is_z(c)])
        reach_done = False
        for Tt in structures:
            Tc = np.array(Tt).reshape(S_, A_, E_)
            sub = [(Tvars[k], z3.IntVal(int(Tt[k]))) for k in range(len(Tvars))]
            pcs = z3.simplify(z3.substitute(pcz, *sub))
            if z3.is_false(pcs):
                continue
            cons = [pcs, hs[S_ - 1] == 0]
            for i in range(S_):
                cons.append(hs[i] + gs == kit.zmax_list([zx.Z(L.R[i, a, 0]) + hs[int(Tc[i, a, 0])] for a in range(A_)]))
            W = [z3.simplify(z3.substitute(zx.Z(x), *sub)) for x in r["vals"]]
            tag = "".join(map(str, Tt))
            if not reach_done:
                reach_done = ob.reach(f"converged-path{pi_}", cons) == "sat"
            for i in range(S_):
                d = W[i] - zx.Z(r["V0"][i])
                ob.prove(f"per-step-gain[{tag},{i}]", cons, z3.And(d / 2 - gs <= eps / 2, gs - d / 2 <= eps / 2), kind="(V_n - V_(n-period))/period within eps/period of the optimal gain",
                         cex=lambda m, Tc=Tc, r=r: dict(kind="C", T=Tc, R=kit.model_array(m, L.R), V=kit.model_array(m, r["V0"]), eps=zx.model_value(m, eps)))
    ob.prove("a-converged-path-exists", [], nconv >= 1)
    return ob.result()


def finding_key(v):
    return f"{v['job'].get('kind')}:{v['obligation'].split('[')[0]}"


def replay(data):
    c = unq(data["cex"])
    job = data["job"]
    from ..tab import Tab
    if c.get("exc"):
        return True, c["exc"]
    if c["kind"] == "A":
        p, g, e = c["period"], float(c["gamma"]), float(c["eps"])
        outs = [np.array(tofloat(o), dtype=float) for o in c["outs"]]
        N = len(outs) - 1
        pb = Tab(2, 2, 1, V0=outs[0])
        s = kit.make_solver("pvi", pb, period=p, gamma=g, epsilon=e, clear_value_history_on_convergence=c["clear"])
        cnt = [0]

        def fake(*a, **k):
            cnt[0] += 1
            return jnp.asarray(outs[cnt[0]])
        s._update_values = fake
        s._extract_policy = lambda *a, **k: jnp.zeros((2, 1), dtype=jnp.int32)
        try:
            st = s.solve(N)
        except Exception as ex:
            return True, f"solve raised {ex!r}"
        # documented rule
        stop = None
        for n in range(1, N + 1):
            if n < p:
                continue
            if g == 1:
                d = outs[n] - outs[n - p]
            else:
                d = sum((outs[j] - outs[j - 1]) / g ** (j - 1) for j in range(n - p + 1, n + 1))
            if d.max() - d.min() < e:
                stop = n
                break
        want = stop if stop is not None else N
        ok = st.info.iteration == want and np.allclose(np.asarray(st.values), outs[want])
        if ok and not (stop is not None and c["clear"]):
            hist = np.asarray(st.info.value_history)
            ok = st.info.history_index == want % (p + 1) and all(np.allclose(hist[(want - j) % (p + 1)], outs[want - j]) for j in range(min(p, want) + 1))
        if ok and stop is not None:
            ok = (st.info.value_history is None) == c["clear"]
        return (not ok), f"period {p} gamma {g} eps {e}: solver stopped at {st.info.iteration}, documented rule stops at {want}"
    if c["kind"] == "C":
        T = np.array(c["T"], dtype=np.int64)
        R, V = (np.array(tofloat(c[x]), dtype=float) for x in ("R", "V"))
        e = float(c["eps"])
        S_ = T.shape[0]
        pb = Tab(S_, 2, 1, T=T, R=R, V0=V)
        s = kit.make_solver("pvi", pb, period=2, gamma=1.0, epsilon=e, max_batch_size=2)
        st = s.solve(2)
        d = np.asarray(st.values) - V
        if d.max() - d.min() >= e:
            return False, "did not converge in floating point"
        from .C04 import average_reward
        # optimal gain: max over deterministic policies of the cycle average
        best = -np.inf
        for pol in itertools.product(range(2), repeat=S_):
            u, seen = 0, []
            while u not in seen:
                seen.append(u)
                u = int(T[u, pol[u], 0])
            cyc = seen[seen.index(u):]
            best = max(best, np.mean([R[i, pol[i], 0] for i in cyc]))
        bad = np.abs(d / 2 - best).max() > e / 2 + 1e-9
        return bool(bad), f"(V_2 - V_0)/2 = {(d / 2).tolist()}, optimal gain {best}, eps/2 {e / 2}"
    return False, "part B counterexamples are replayed under C02"

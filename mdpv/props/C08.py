"""C08 - stopping rule, iteration accounting and composability of solve()."""
from __future__ import annotations

import itertools

import jax
import jax.numpy as jnp
import numpy as np
import z3

from .. import kit, pathx, zx
from ..harness import Obligations, unq, tofloat
from ..stubs.common import KeyedUSweep, key_id, key_schedule, MutRows, NPShim, USweep, maxdiff_terms, patched, sfloat, span_terms
from ..trace import symbolic, sym, val_of, lift, SymTracer

ID = "C08"
LEVEL = "model_checking"
FUNCTIONS = ["ValueIteration.solve/_iteration_step/_setup_convergence_testing/_get_span/_get_max_diff",
             "RelativeValueIteration.solve/_iteration_step/_setup_convergence_testing/_initialize_solver_state_elements",
             "PeriodicValueIteration.solve/_iteration_step/_setup_convergence_testing/_initialize_solver_state_elements",
             "SemiAsyncValueIteration.solve/_iteration_step", "PolicyIteration.solve/_iteration_step/_evaluate_policy",
             "Solver._initialize_values/_calculate_initial_value_scan_state_batches (pmap+scan+vmap)"]
RULE = ("Jobs enumerate solver x convergence test x sequence of solve() limits (k <= 4, sums <= 5). The sweep is an "
        "uninterpreted function U on value vectors (S=2), initial values, gamma and epsilon are symbolic; every host path "
        "(which sweep, if any, falls below the threshold; gamma = 0 / = 1 / other) is explored and yields obligations.")
ASSUMPTIONS = [
    "the sweep (and for PI policy evaluation / improvement) is abstracted by uninterpreted functions of the value vector "
    "(sound for counting, ordering and state threading; what one sweep computes is C02/C05/C06)",
    "S = 2 states for the loop-level obligations; _initialize_values is checked separately on S in {1,2,3,5} with padding",
    "`float` and get_convergence_format are shadowed in the solver modules (formatting is C20's subject)",
    "gamma in [0,1], epsilon > 0 (validated domain); floats as reals; at gamma = 0 the threshold is +inf as in IEEE arithmetic",
    "periodic VI: gamma in (0,1] (at gamma = 0 its discount correction divides by zero and the measure is inf/nan)",
]
OUTSIDE = "limits k > 4; S > 2 for loop obligations; floating-point rounding in the measure"
EXPLANATION = "real solve() loops executed under the path explorer with the sweep abstracted; obligations are SMT validities over the recorded terms"
JOB_TIMEOUT = {"quick": 1500, "thorough": 3000}

S = 2


def bounds(tier):
    return {"solvers": ["vi", "savi", "rvi", "pvi", "pi"], "k": "1..3 quick / 1..4 thorough", "call sequences": "(k1,k2) with k1+k2<=4 (5 thorough)",
            "gamma, epsilon, V0": "symbolic", "S": 2}


def jobs(tier, seed):
    out = []
    q = tier == "quick"
    ks = [1, 2, 3] if q else [1, 2, 3, 4]
    seqs = [(1, 1), (1, 2), (2, 1), (2, 2)] if q else [(1, 1), (1, 2), (2, 1), (2, 2), (1, 3), (3, 1), (2, 3), (3, 2), (1, 1, 1)]
    for solver in ("vi", "savi", "rvi", "pvi", "pi"):
        tests = ("span", "max_diff") if solver in ("vi", "savi", "pi") else ("span",)
        for test in tests:
            for k in (ks if solver != "pi" else ks[:2]):
                out.append(dict(name=f"single-{solver}-{test}-k{k}", kind="single", solver=solver, test=test, ks=[k], devices=1,
                                cost=3 ** k if solver == "pi" else k))
            for sq in (seqs if solver != "pi" else [(1, 1)] + ([] if q else [(1, 2), (2, 1)])):
                if solver == "pvi" and test != "span":
                    continue
                out.append(dict(name=f"compose-{solver}-{test}-{'+'.join(map(str, sq))}", kind="compose", solver=solver, test=test,
                                ks=list(sq), devices=1, cost=(9 if solver == "pi" else 1) * sum(sq)))
                if solver == "savi" and test == "span":
                    # shuffled visiting order: the sweep depends on the pseudo-random key the solver threads through its calls
                    out.append(dict(name=f"compose-savi-shuffle-{'+'.join(map(str, sq))}", kind="compose", solver=solver, test=test, shuffle=True,
                                    ks=list(sq), devices=1, cost=2 * sum(sq)))
            if solver == "savi" and test == "span":
                for k in ks[:2]:
                    out.append(dict(name=f"single-savi-shuffle-k{k}", kind="single", solver=solver, test=test, shuffle=True, ks=[k], devices=1, cost=k))
    for (n, bs, dv) in ([(1, 1, 1), (2, 1, 1), (3, 2, 1), (5, 2, 1), (3, 2, 2), (5, 4, 1)] if q else
                        [(1, 1, 1), (2, 1, 1), (3, 2, 1), (5, 2, 1), (3, 2, 2), (5, 4, 1), (7, 3, 1), (5, 2, 3), (4, 64, 4), (2, 1, 8)]):
        for solver in ("vi", "pi", "rvi", "pvi", "savi"):
            out.append(dict(name=f"init-{solver}-n{n}-bs{bs}-dev{dv}", kind="init", solver=solver, n=n, bs=bs, devices=dv, cost=2))
    return out


def solver_modules():
    import mdpax.solvers.value_iteration as m1
    import mdpax.solvers.relative_value_iteration as m2
    import mdpax.solvers.periodic_value_iteration as m3
    import mdpax.solvers.policy_iteration as m4
    import mdpax.solvers.semi_async_value_iteration as m5
    return [m1, m2, m3, m4, m5]


class shadowed:
    """float/get_convergence_format shadowed in all solver modules, np shim in the periodic module."""

    def __enter__(self):
        import mdpax.solvers.periodic_value_iteration as pv
        self.cms = [patched(m, float=sfloat, get_convergence_format=lambda x, *a, **k: ".4f") for m in solver_modules()]
        self.cms.append(patched(pv, np=NPShim()))
        for c in self.cms:
            c.__enter__()
        return self

    def __exit__(self, *a):
        for c in reversed(self.cms):
            c.__exit__(*a)


def construct(job, pb, extra=None):
    kw = dict(max_batch_size=2)
    name = job["solver"]
    if name in ("vi", "savi", "pi"):
        kw["convergence_test"] = job["test"]
    if name == "pi":
        kw["max_eval_iter"] = 2
    if name == "pvi":
        kw.update(period=2, clear_value_history_on_convergence=False)
    if job.get("shuffle"):
        kw.update(shuffle_states=True, random_seed=SHUFFLE_SEED)
    kw.update(extra or {})
    return kit.make_solver(name, pb, **kw)


SHUFFLE_SEED = 3


def run_scenario(job, ks):
    """Explore all host paths of solve(k) for k in ks. Returns list of dicts per path."""
    name = job["solver"]
    gam, eps = z3.Real("gamma"), z3.Real("eps")
    results = []
    ex = pathx.Explorer(max_paths=400)

    def run():
        pb = kit.make_tab(dict(S=S, A=2, E=1, bs=2), 0)
        with symbolic():
            pb.V0 = sym("V0", (S,))
            solver = construct(job, pb)
            v0 = list(val_of(solver.values))
            if name != "rvi":
                solver.gamma = lift(gam)
            solver.epsilon = lift(eps)
            # periodic VI divides by gamma**k: at gamma = 0 its measure is inf/nan (never below epsilon); excluded here
            pathx.CUR.assume(z3.And(gam > 0 if name == "pvi" else gam >= 0, gam <= 1, eps > 0))
            solver._setup_convergence_testing()
            thr = solver.conv_threshold
            if job.get("shuffle"):
                # the real _update_values (key splitting included) stays; only what happens with the key is abstracted
                U = KeyedUSweep(S, "UK", key_schedule(SHUFFLE_SEED, sum(ks) + 1))
                solver._jitted_shuffle_states = lambda subkey: (U.set_key(key_id(val_of(subkey))) or "shuffled", solver.batched_states, None)
                solver._calculate_updated_value_scan_state_batches_pmap = lambda carry, inp: U(carry[3])
                solver._unbatch_results = lambda x: x
                solver._jitted_reorder_values = lambda idx, x: x
            else:
                U = USweep(S, "U")
                solver._update_values = lambda bs, a, e, g, v: U(v)
            POL = z3.Function("POL", *([z3.RealSort()] * S), z3.IntSort())
            pol_calls = [0]

            def fake_extract(*a, **k):
                pol_calls[0] += 1
                v = [zx.Z(zx.to_real(x)) for x in val_of(solver.values)]
                arr = np.empty((S, 1), dtype=object)
                for i in range(S):
                    arr[i, 0] = POL(*v) + i  # any function of the current values
                return lift(arr, jnp.int32)
            UE = USweep(S, "UE", extra_int_args=S)
            if name == "pi":
                solver._calculate_policy_values = lambda policy, values: UE(values, extra=list(val_of(policy).reshape(-1)))
                solver.policy = sym("PI0", (S, 1), "int")
            solver._extract_policy = fake_extract
            nch = []
            if name == "pi":
                orig_step = solver._iteration_step

                def step():
                    r = orig_step()
                    nch.append(val_of(r[1]).reshape(())[()])
                    return r
                solver._iteration_step = step
            convs = []
            orig = solver._convergence_test_fn

            def rec(*a, **k):
                c = orig(*a, **k)
                convs.append(c)
                return c
            solver._convergence_test_fn = rec
            snaps = []
            for k in ks:
                solver.solve(k)
                snaps.append(snapshot(solver, U, UE, pol_calls[0]))
                snaps[-1]["nchanged"] = list(nch)
            return dict(v0=v0, thr=thr, snaps=snaps, U=U, UE=UE,
                        convs=[c.val[()] if isinstance(c, SymTracer) else zx.from_np_scalar(np.asarray(c)) if not isinstance(c, float) else c for c in convs])
    with shadowed():
        for o in ex.explore(run):
            if o.exc is not None:
                from ..harness import exc_origin
                if exc_origin(o.exc) == "harness":
                    results.append(dict(harness_exc=repr(o.exc), pc=o.pc))
                    continue
                results.append(dict(exc=o.exc, pc=o.pc))
            else:
                d = o.value
                d["pc"] = o.pc
                results.append(d)
    return results, ex.stats


def snapshot(solver, U, UE, pol_calls):
    d = dict(values=list(val_of(solver.values)), iteration=solver.iteration, calls=U.calls, ue_calls=UE.calls, pol_calls=pol_calls,
             policy=None if solver.policy is None else list(val_of(solver.policy).reshape(-1)))
    if hasattr(solver, "gain"):
        g = solver.gain
        d["gain"] = val_of(g).reshape(())[()] if not isinstance(g, float) else zx.from_np_scalar(g)
    if hasattr(solver, "value_history") and solver.value_history is not None:
        d["history"] = [list(val_of(r)) for r in solver.value_history.rows]
        d["history_index"] = solver.history_index
    return d


def doc_threshold(ob, pc, gam, eps):
    """documented threshold as a zx scalar on this path (gamma=0 -> +inf, gamma=1 -> eps)."""
    if _implied(pc, gam == 0):
        return float("inf")
    if _implied(pc, gam == 1):
        return eps
    if _implied(pc, z3.And(gam != 0, gam != 1)):
        return eps * (1 - gam) / gam
    return None


def _implied(pc, c):
    s = z3.Solver()
    s.set("timeout", 20000)
    s.add(*[x for x in pc if zx.is_z(x)])
    s.add(z3.Not(c))
    return s.check() == z3.unsat


def eq_thr(code, doc):
    if isinstance(code, SymTracer):
        code = code.val[()]
    elif not isinstance(code, float):
        code = zx.from_np_scalar(np.asarray(code)[()]) if not zx.is_z(code) else code
    if isinstance(doc, float) or isinstance(code, float):
        return isinstance(doc, float) and isinstance(code, float) and doc == code
    return zx.eq(code, doc)


def reference_iterates(job, U, v0, n, gain0=None):
    """Reference recursion of the solver's documented rule under the sweep abstraction."""
    name = job["solver"]
    its = [list(v0)]
    gains = [v0[-1]]  # RVI: the gain subtracted in a sweep is the last state's value before it
    for i in range(n):
        nv = U.apply_terms(its[-1], step=i) if getattr(U, "keyed", False) else U.apply_terms(its[-1])
        if name == "rvi":
            g_prev = gains[-1]
            nv = [zx.sub(x, g_prev) for x in nv]
            gains.append(nv[-1])
        its.append(nv)
    return its, gains


def pvi_measure(its, n, period, gam, gamma_is_one):
    """documented periodic measure at sweep n (None = not yet defined: fewer than `period` sweeps)."""
    if n < period:
        return float("inf")
    if gamma_is_one:
        return span_terms(its[n], its[n - period])
    acc = [0] * len(its[0])
    for j in range(n - period + 1, n + 1):
        for i in range(len(acc)):
            acc[i] = zx.add(acc[i], zx.Z(zx.to_real(zx.sub(its[j][i], its[j - 1][i]))) / (gam ** (j - 1)) if j > 1
                            else zx.sub(its[j][i], its[j - 1][i]))
    return span_terms(acc, [0] * len(acc))


def measure(job, its, i, pc=None):
    if job["solver"] == "pvi":
        gam = z3.Real("gamma")
        return pvi_measure(its, i, 2, gam, _implied(pc, gam == 1))
    return maxdiff_terms(its[i], its[i - 1]) if job.get("test") == "max_diff" and job["solver"] in ("vi", "savi") else span_terms(its[i], its[i - 1])


def run_job(job):
    ob = Obligations(job)
    if job["kind"] == "init":
        return run_init(job, ob)
    name = job["solver"]
    gam, eps = z3.Real("gamma"), z3.Real("eps")
    ks = job["ks"]
    paths, stats = run_scenario(job, ks)
    ob.extra["paths"] = len(paths)
    if job["kind"] == "compose":
        ref_paths, _ = run_scenario(job, [sum(ks)])
        ob.extra["paths"] += len(ref_paths)
    for p in list(paths) + (list(ref_paths) if job["kind"] == "compose" else []):
        if "harness_exc" in p:
            ob.fail_harness(f"harness raised: {p['harness_exc']}")
    paths = [p for p in paths if "harness_exc" not in p]
    if job["kind"] == "compose":
        ref_paths = [p for p in ref_paths if "harness_exc" not in p]
    for pi_, p in enumerate(paths):
        if "exc" in p:
            ob.prove(f"no-exception[path{pi_}]", p["pc"], False, cex=lambda m: dict(kind="exc", exc=repr(p["exc"]),
                                                                                   gamma=zx.model_value(m, gam), eps=zx.model_value(m, eps)))
            continue
        pc = p["pc"]
        ob.reach(f"path{pi_}", pc)
        U = p["U"]

        def cexf(m, p=p):
            return dict(kind="loop", solver=name, test=job.get("test"), ks=ks, gamma=zx.model_value(m, gam), eps=zx.model_value(m, eps),
                        V0=[zx.model_value(m, x) for x in p["v0"]],
                        outs=[[zx.model_value(m, t) for t in (U.apply_terms(inp, extra=[U.klog[j]]) if getattr(U, "keyed", False) else U.apply_terms(inp))]
                              for j, inp in enumerate(U.log)])
        # threshold
        if name in ("vi", "savi", "pi"):
            thr_doc = doc_threshold(ob, pc, gam, eps)
        else:
            thr_doc = eps
        ob.prove(f"threshold==documented[path{pi_}]", pc, thr_doc is not None and eq_thr(p["thr"], thr_doc), cex=cexf,
                 kind="threshold == documented formula")
        if isinstance(thr_doc, float) and not isinstance(p["thr"], float):
            continue
        if job["kind"] == "single":
            k = ks[0]
            sn = p["snaps"][0]
            if name == "pi":
                ob.prove(f"at-most-k[path{pi_}]", pc, sn["iteration"] <= k and sn["pol_calls"] == sn["iteration"], cex=cexf,
                         kind="solve(k) performs at most k iterations; iteration == number of improvement steps")
                continue
            n = sn["calls"]
            ob.prove(f"at-most-k[path{pi_}]", pc, n <= k, cex=cexf, kind="solve(k) performs at most k sweeps")
            ob.prove(f"iteration==sweeps[path{pi_}]", pc, sn["iteration"] == n, cex=cexf, kind="iteration == number of sweeps")
            its, gains = reference_iterates(job, U, p["v0"], n)
            for i in range(S):
                ob.prove(f"values==U^n(V0)[path{pi_},{i}]", pc, zx.eq(sn["values"][i], its[n][i]), cex=cexf,
                         kind="values == iteration reference backups of the initial values")
            if name == "rvi" and n >= 1:
                ob.prove(f"gain==reference[path{pi_}]", pc, zx.eq(sn["gain"], gains[n]), cex=cexf, kind="gain follows the documented rule")
            if thr_doc is None:
                continue
            # stopping rule against the documented measure
            for i in range(1, n):
                ob.prove(f"no-early-convergence-missed[path{pi_},{i}]", pc, zx.ge(measure(job, its, i, pc), thr_doc), cex=cexf,
                         kind="continued only while measure >= threshold")
            if n >= 1:
                below = zx.lt(measure(job, its, n, pc), thr_doc)
                if n < k:
                    ob.prove(f"stopped=>below[path{pi_}]", pc, below, cex=cexf, kind="stopped early only with measure < threshold")
                else:
                    # n == k: either converged at k or limit reached; the path condition must decide which
                    c1 = _implied(pc, zx.Z(below) if zx.is_z(below) else z3.BoolVal(bool(below)))
                    c2 = _implied(pc, z3.Not(zx.Z(below)) if zx.is_z(below) else z3.BoolVal(not bool(below)))
                    ob.prove(f"last-sweep-decided[path{pi_}]", pc, c1 or c2, cex=cexf, kind="path decides the last measure")
        else:
            # composability: compare with the single solve(k1+k2) on compatible paths
            sn_mid = p["snaps"][:-1]
            if name == "pi":
                ran_to_limit = all(s["iteration"] == sum(ks[:j + 1]) for j, s in enumerate(sn_mid))
            else:
                ran_to_limit = all(s["calls"] == sum(ks[:j + 1]) for j, s in enumerate(sn_mid))
            if not ran_to_limit:
                continue
            fin = p["snaps"][-1]
            for ri, r in enumerate(ref_paths):
                if "exc" in r:
                    continue
                both = pc + r["pc"]
                # first call(s) must not have converged: documented measure at each intermediate limit >= threshold
                s_ = z3.Solver()
                s_.set("timeout", 20000)
                s_.add(*[x for x in both if zx.is_z(x)])
                if name not in ("pi",) and thr_doc is not None:
                    its, _ = reference_iterates(job, U, p["v0"], sum(ks))
                    for j in range(len(ks) - 1):
                        c = zx.ge(measure(job, its, sum(ks[:j + 1]), both), thr_doc)
                        if zx.is_z(c):
                            s_.add(c)
                        elif not c:
                            s_.add(z3.BoolVal(False))
                if name == "pi":
                    for sm in sn_mid:  # the earlier call(s) must have stopped at the limit, not by policy stability
                        c = zx.gt(sm["nchanged"][-1], 0)
                        s_.add(zx.Z(c) if zx.is_z(c) else z3.BoolVal(bool(c)))
                if s_.check() != z3.sat:
                    continue
                extra_assump = list(s_.assertions())
                rf = r["snaps"][-1]
                # uninterpreted symbols must be the same objects: rebuild by name (z3 hash-conses by name)
                ob.prove(f"compose-iteration[path{pi_},ref{ri}]", extra_assump, fin["iteration"] == rf["iteration"], cex=cexf,
                         kind="solve(k1);solve(k2) == solve(k1+k2): iteration")
                for i in range(S):
                    ob.prove(f"compose-values[path{pi_},ref{ri},{i}]", extra_assump, zx.eq(fin["values"][i], rf["values"][i]), cex=cexf,
                             kind="solve(k1);solve(k2) == solve(k1+k2): values")
                if fin["policy"] is not None and rf["policy"] is not None:
                    for i in range(len(fin["policy"])):
                        ob.prove(f"compose-policy[path{pi_},ref{ri},{i}]", extra_assump, zx.eq(fin["policy"][i], rf["policy"][i]), cex=cexf,
                                 kind="solve(k1);solve(k2) == solve(k1+k2): policy")
                if "gain" in fin:
                    ob.prove(f"compose-gain[path{pi_},ref{ri}]", extra_assump, zx.eq(fin["gain"], rf["gain"]), cex=cexf,
                             kind="solve(k1);solve(k2) == solve(k1+k2): gain")
                if "history" in fin:
                    ob.prove(f"compose-history-index[path{pi_},ref{ri}]", extra_assump, fin["history_index"] == rf["history_index"], cex=cexf,
                             kind="solve(k1);solve(k2) == solve(k1+k2): history index")
                    for a_, b_ in zip(fin["history"], rf["history"]):
                        for i in range(S):
                            ob.prove(f"compose-history[path{pi_},ref{ri}]", extra_assump, zx.eq(a_[i], b_[i]), cex=cexf,
                                     kind="solve(k1);solve(k2) == solve(k1+k2): value history")
    return ob.result()


def run_init(job, ob):
    n = job["n"]
    cfg = dict(S=n, A=2, E=1, ds=2 if n >= 3 else 1, da=1, de=1, offset=1 if n % 2 else 0, bs=job["bs"])
    pb = kit.make_tab(cfg, 0)
    ex = pathx.Explorer()

    def run():
        with symbolic():
            pb.V0 = sym("V0", (n,))
            solver = construct(dict(solver=job["solver"], test="span"), pb, dict(max_batch_size=job["bs"]))
            return list(val_of(pb.V0)), val_of(solver.values), solver.iteration, solver.batch_processor.batch_shape, solver.n_pad
    with shadowed():
        for o in ex.explore(run):
            if o.exc is not None:
                from ..harness import exc_origin
                if exc_origin(o.exc) == "harness":
                    ob.fail_harness(f"harness raised: {o.exc!r}")
                    continue
                ob.fail_harness(f"constructor raised: {o.exc!r}")
                continue
            v0, vals, it, shape, npad = o.value
            ob.extra["batch_shape"] = [list(shape) + [npad]]
            ob.prove("initial-shape-and-iteration", [], vals.shape == (n,) and it == 0,
                     cex=lambda m: dict(kind="init", n=n, bs=job["bs"], solver=job["solver"]))
            for i in range(n):
                ob.prove(f"V0[{i}]==initial_value(state_{i})", o.pc, zx.eq(vals[i], v0[i]) if vals.shape == (n,) else False,
                         cex=lambda m: dict(kind="init", n=n, bs=job["bs"], solver=job["solver"]),
                         kind="initial estimates == problem.initial_value per state")
    return ob.result()


def finding_key(v):
    return f"{v['job'].get('solver')}:{v['obligation'].split('[')[0]}"


def replay(data):
    """Concrete replay: a tabular MDP whose sweeps reproduce the model's iterates cannot be built from an
    uninterpreted U in general, so the replay re-runs the real solver on a concrete 2-state MDP with the
    counterexample's gamma/epsilon/initial values and checks the same accounting facts concretely."""
    c = unq(data["cex"]) or {}
    job = data["job"]
    if c.get("kind") == "init":
        n, bs = c["n"], c["bs"]
        cfg = dict(S=n, A=2, E=1, ds=2 if n >= 3 else 1, da=1, de=1, offset=1 if n % 2 else 0, bs=bs)
        pb = kit.make_tab(cfg, 0)
        s = construct(dict(solver=c["solver"], test="span"), pb, dict(max_batch_size=bs))
        bad = np.asarray(s.values).shape != (n,) or not np.allclose(np.asarray(s.values), np.asarray(pb.V0))
        return bool(bad), f"initial values {np.asarray(s.values)} vs initial_value per state {np.asarray(pb.V0)}"
    if c.get("kind") == "exc":
        g, e = float(c["gamma"]), float(c["eps"])
        try:
            pb = kit.make_tab(dict(S=2, A=2, E=1, bs=2), 0)
            s = construct(job, pb, dict(gamma=g, epsilon=e))
            s.solve(job["ks"][0])
            return False, "no exception"
        except Exception as ex:
            return True, f"gamma={g} epsilon={e}: {type(ex).__name__}: {ex}"
    g, e = float(c["gamma"]), float(c["eps"])
    V0 = np.array(tofloat(c["V0"]), dtype=float)
    if job["solver"] == "pi":
        return concrete_accounting(job, g, e, V0)
    outs = [np.array(tofloat(o), dtype=float) for o in c.get("outs") or []]
    ob_name = data["obligation"]
    if ob_name.startswith("threshold"):
        pb = kit.make_tab(dict(S=2, A=2, E=1, bs=2), 0)
        kw = dict(epsilon=e)
        if job["solver"] != "rvi":
            kw["gamma"] = g
        try:
            s = construct(job, pb, kw)
        except Exception as ex:
            return (g != 0.0), f"construction failed at gamma={g} epsilon={e}: {ex!r}"
        doc = e if (job["solver"] in ("rvi", "pvi") or g == 1) else (np.inf if g == 0 else e * (1 - g) / g)
        got = float(s.conv_threshold)
        return (not bool(np.isclose(got, doc, rtol=1e-12, atol=0))), f"{job['solver']}/{job.get('test')}: gamma={g} epsilon={e}: threshold {got}, documented {doc}"
    if ob_name.startswith("compose"):
        return compose_replay(job, g, e, V0, outs)
    return sequence_replay(job, g, e, V0, outs)


def _real_run(job, g, e, V0, outs, ks, seed=0):
    from ..tab import Tab
    if seed == "designed":
        # greedy action = the successor with the larger value, so the policy follows the sweep results
        T, R, P = np.array([[[0], [1]], [[0], [1]]]), np.zeros((2, 2, 1)), np.ones((2, 2, 1))
    else:
        T, R, P, _ = kit.rand_tables(2, 2, 1, seed)
    pb = Tab(2, 2, 1, T=T, R=R, P=P, V0=V0)
    kw = dict(epsilon=e)
    if job["solver"] != "rvi":
        kw["gamma"] = g
    s = construct(job, pb, kw)
    calls = [0]

    def fake(bs, a, ev, gm, v):
        calls[0] += 1
        return jnp.asarray(outs[min(calls[0] - 1, len(outs) - 1)])
    s._update_values = fake   # the real policy extraction stays in place
    its = []
    for k in ks:
        s.solve(k)
        its.append(s.iteration)
    return s, calls[0], its


def shuffle_replay(job):
    """shuffled semi-async VI on a concrete problem with several batches: solve(k1); solve(k2); ... against one solve(sum)"""
    pb_kw = dict(S=7, A=2, E=2, bs=2)
    runs = []
    for ks in (job["ks"], [sum(job["ks"])]):
        s = kit.make_solver("savi", kit.make_tab(pb_kw, 1), max_batch_size=2, shuffle_states=True, random_seed=SHUFFLE_SEED, epsilon=1e-12, gamma=0.9,
                            convergence_test=job.get("test", "span"))
        for k in ks:
            s.solve(k)
        runs.append(s)
    a, b = runs
    same = a.iteration == b.iteration and np.array_equal(np.asarray(a.values), np.asarray(b.values)) and np.array_equal(np.asarray(a.policy), np.asarray(b.policy))
    return (not same), (f"savi shuffle_states=True solve{job['ks']}: iteration {a.iteration} values {np.asarray(a.values)}; single solve({sum(job['ks'])}): "
                        f"iteration {b.iteration} values {np.asarray(b.values)}")


def compose_replay(job, g, e, V0, outs):
    if job.get("shuffle"):
        return shuffle_replay(job)
    total = sum(job["ks"])
    while len(outs) < total:
        outs.append((outs[-1] if outs else V0) + 1.0 + np.arange(len(V0)))
    msg = ""
    designed = [np.array([10.0 * (i + 1), 0.0]) if i % 2 == 0 else np.array([0.0, 10.0 * (i + 1)]) for i in range(total)]
    for seed in list(range(6)) + ["designed"]:
        # the model's sweep results first; then the same call schedule with sweep results that make the greedy policy move
        use = designed if seed == "designed" else outs
        try:
            a, na, its = _real_run(job, g if seed != "designed" else (g if job["solver"] == "rvi" else min(g, 0.9) or 0.9), e if seed != "designed" else 1e-6, V0, use, job["ks"], seed)
            b, nb, _ = _real_run(job, g if seed != "designed" else (g if job["solver"] == "rvi" else min(g, 0.9) or 0.9), e if seed != "designed" else 1e-6, V0, use, [total], seed)
        except Exception as ex:
            return True, f"raised {type(ex).__name__}: {ex}"
        # precondition: every earlier call stopped at its limit and not by convergence -> the single call passes that point too
        limits = np.cumsum(job["ks"])[:-1]
        if any(i != l for i, l in zip(its[:-1], limits)) or b.iteration < limits[-1] + 1:
            return False, "an earlier call converged: composability is not claimed"
        same = a.iteration == b.iteration and np.allclose(np.asarray(a.values), np.asarray(b.values))
        same = same and np.array_equal(np.asarray(a.policy), np.asarray(b.policy))
        if hasattr(a, "gain"):
            same = same and abs(float(a.gain) - float(b.gain)) < 1e-9
        if hasattr(a, "history_index"):
            same = same and a.history_index == b.history_index and np.allclose(np.asarray(a.value_history), np.asarray(b.value_history))
        msg = (f"{job['solver']} solve{job['ks']}: iteration {a.iteration} values {np.asarray(a.values)} policy {np.asarray(a.policy).ravel()}; "
               f"single solve({total}): iteration {b.iteration} values {np.asarray(b.values)} policy {np.asarray(b.policy).ravel()}")
        if not same:
            return True, msg
    return False, msg


def sequence_replay(job, g, e, V0, outs):
    """Real solve() with the sweep replaced by the counterexample's sequence of sweep results; the
    documented rule is simulated independently on the same sequence and the final states compared."""
    name = job["solver"]
    total = sum(job["ks"])
    while len(outs) < total:
        outs.append((outs[-1] if outs else V0) + 1.0 + np.arange(len(V0)))
    from ..tab import Tab
    pb = Tab(2, 2, 1, V0=V0)
    kw = dict(epsilon=e)
    if name != "rvi":
        kw["gamma"] = g
    try:
        s = construct(job, pb, kw)
    except Exception as ex:
        return False, f"counterexample parameters rejected at construction: {ex!r}"
    calls = [0]

    def fake(bs, a, ev, gm, v):
        calls[0] += 1
        return jnp.asarray(outs[min(calls[0] - 1, len(outs) - 1)])
    s._update_values = fake
    s._extract_policy = lambda *a, **k: jnp.zeros((2, 1), dtype=jnp.int32)
    try:
        for k in job["ks"]:
            s.solve(k)
    except Exception as ex:
        return True, f"solve raised {type(ex).__name__}: {ex}"
    gg = 1.0 if name == "rvi" else g
    thr = e if (name in ("rvi", "pvi") or gg == 1) else (np.inf if gg == 0 else e * (1 - gg) / gg)
    v, it, gain, n = V0.copy(), 0, float(V0[-1]), 0
    hist = [V0.copy()]
    period = 2
    for k in job["ks"]:
        stopped = False
        for _ in range(k):
            nv = outs[min(n, len(outs) - 1)].copy()
            n += 1
            if name == "rvi":
                nv = nv - gain
            if name == "pvi":
                hist.append(nv.copy())
                itn = it + 1
                if itn < period:
                    m = np.inf
                elif gg == 1:
                    d = hist[itn] - hist[itn - period]
                    m = d.max() - d.min()
                else:
                    d = sum((hist[j] - hist[j - 1]) / gg ** (j - 1) for j in range(itn - period + 1, itn + 1))
                    m = d.max() - d.min()
            else:
                d = nv - v
                m = np.abs(d).max() if (job.get("test") == "max_diff" and name != "rvi") else d.max() - d.min()
            if name == "rvi":
                gain = nv[-1]
            v, it = nv, it + 1
            if m < thr:
                stopped = True
                break
        # a later solve() call continues even after convergence (documented: composability only without convergence)
    ok = s.iteration == it and n == calls[0] and np.allclose(np.asarray(s.values), v, atol=1e-9 * max(1, np.abs(v).max()))
    if name == "rvi":
        ok = ok and abs(float(s.gain) - gain) <= 1e-9 * max(1, abs(gain))
    return (not ok), (f"{name} solve{job['ks']} gamma={g} eps={e}: solver iteration={s.iteration} sweeps={calls[0]} values={np.asarray(s.values)} "
                      f"gain={getattr(s, 'gain', None)}; documented rule on the same sweep results: iteration={it} sweeps={n} values={v} gain={gain}")


def concrete_accounting(job, g, e, V0):
    """Fallback replay (policy iteration): run the real solver on random 2-state MDPs with the
    counterexample's gamma/epsilon/initial values and check the accounting facts concretely."""
    name = job["solver"]
    rng = np.random.default_rng(5)
    bad_msgs = []
    from ..tab import Tab
    for trial in range(20):
        T, R, P, _ = kit.rand_tables(2, 2, 1, trial)
        pb = Tab(2, 2, 1, T=T, R=R * rng.choice([0.01, 1, 10]), P=P, V0=V0)
        kw = dict(epsilon=e)
        if name != "rvi":
            kw["gamma"] = g
        try:
            s = construct(job, pb, kw)
            total = 0
            its = []
            for k in job["ks"]:
                s.solve(k)
                total += k
                its.append(s.iteration)
            s2 = construct(job, Tab(2, 2, 1, T=T, R=np.asarray(pb.R)[:, :, :], P=P, V0=V0), kw)
            s2.solve(total)
        except Exception as ex:
            return True, f"raised {type(ex).__name__}: {ex}"
        if s.iteration > total:
            bad_msgs.append(f"trial {trial}: iteration {s.iteration} > limit {total}")
        stopped_early = any(i < sum(job["ks"][:j + 1]) for j, i in enumerate(its[:-1]))
        if len(job["ks"]) > 1 and not stopped_early and s2.iteration >= its[0] + 1:
            same = s.iteration == s2.iteration and np.allclose(np.asarray(s.values), np.asarray(s2.values)) and \
                np.array_equal(np.asarray(s.policy), np.asarray(s2.policy))
            if not same and s2.iteration == total:
                bad_msgs.append(f"trial {trial}: solve{job['ks']} -> it {s.iteration} values {np.asarray(s.values)}; "
                                f"solve({total}) -> it {s2.iteration} values {np.asarray(s2.values)}")
    return bool(bad_msgs), (bad_msgs[0] if bad_msgs else "real solver consistent on 20 random MDPs")

"""C09 - interrupt-and-resume at any iteration equals an uninterrupted run."""
from __future__ import annotations

import os

import jax
import jax.numpy as jnp
import numpy as np
import z3

from .. import ckkit, kit, pathx, zx
from ..harness import Obligations, unq
from ..stubs import orbax_model as om
from ..trace import lift, sym, symbolic, val_of
from .C08 import shadowed

ID = "C09"
LEVEL = "model_checking"
FUNCTIONS = ["<all five>.solve", "CheckpointMixin.save/restore/load_checkpoint/_setup_checkpointing/_create_checkpoint_manager", "<all five>.solver_state",
             "<all five>._restore_state_from_checkpoint", "hydra instantiate of the saved config.yaml (real)"]
RULE = ("One job per (solver, route restore()/load_checkpoint(), interruption points, total K, frequency, retention, sync/async). Sweeps are "
        "uninterpreted, initial values symbolic, convergence outcomes symbolic; on every host path on which the interrupted calls stopped at "
        "their limits, the final state of the resumed run is compared term by term with one uninterrupted solve(K) without checkpointing.")
ASSUMPTIONS = [
    "Orbax replaced by the contract model (validated against the real library in C12's 'model' job); a fresh process is modelled as a fresh "
    "solver object sharing only the model's store (mdpax keeps no module-level state besides the loguru sink and JAX's x64 flag)",
    "sweeps abstracted by uninterpreted functions with the real host-side state threading (gain subtraction, history buffer, policy)",
    "interruption = a solve(k) call that returns because its limit is reached (not by convergence)",
    "semi-async: fixed update order (with shuffling the resumed run uses other permutations; its bound for every permutation is C01)",
    "K <= 5, f in {1,2,3}, m in {1,2}",
]
OUTSIDE = "floating-point reproducibility across processes/platforms; Orbax/filesystem behaviour (C11); K > 5"
EXPLANATION = "real solve/save/restore/load under the path explorer with the Orbax contract model; equality of final states as terms"
JOB_TIMEOUT = {"quick": 2400, "thorough": 7200}


def bounds(tier):
    return {"solvers": ["vi", "pi", "rvi", "pvi", "savi"], "routes": ["restore", "load_checkpoint"], "interruptions": "k in 1..K-1 (K<=4 quick, 5 thorough); chains of two",
            "f": [1, 2, 3], "m": [1, 2], "async": [True, False]}


def jobs(tier, seed):
    out = []
    q = tier == "quick"
    for solver in ("vi", "pi", "rvi", "pvi", "savi"):
        for route in ("restore", "load"):
            plans = [([1], 3), ([2], 4), ([3], 4), ([1, 1], 4)] if q else [([k], K) for K in (3, 4, 5) for k in range(1, K)] + [([1, 1], 4), ([2, 1], 5), ([1, 2], 5)]
            for (ks, K) in plans:
                for (f, m, a) in ([(2, 1, True)] if q else [(1, 1, True), (2, 1, True), (3, 2, False), (2, 2, False)]):
                    if q and solver != "vi" and ks not in ([2], [1, 1]):
                        continue
                    out.append(dict(name=f"resume-{solver}-{route}-k{'+'.join(map(str, ks))}-K{K}-f{f}-m{m}-{'a' if a else 's'}", kind="resume", solver=solver,
                                    route=route, ks=ks, K=K, f=f, m=m, async_=a, devices=1, seed=seed, cost=K))
        if solver == "pi":
            # non-default option: every policy evaluation restarts from the initial value estimates
            for route in ("restore", "load"):
                for (ks, K) in ([([2], 4), ([1, 1], 4)] if q else [([1], 3), ([2], 4), ([3], 5), ([1, 1], 4), ([2, 1], 5)]):
                    for mei in (1, 2):
                        if K >= 5 and mei == 2:
                            continue   # more host paths than the explorer's budget of 300
                        out.append(dict(name=f"resume-pi-reset-{route}-k{'+'.join(map(str, ks))}-K{K}-e{mei}", kind="resume", solver="pi", route=route, ks=ks, K=K,
                                        f=1, m=1, async_=True, devices=1, seed=seed, cost=K,
                                        extra=dict(reset_values_for_each_policy_eval=True, max_eval_iter=mei)))
        for (f, m, a) in [(1, 1, True), (2, 2, False), (3, 1, True)]:
            out.append(dict(name=f"onoff-{solver}-f{f}-m{m}-{'a' if a else 's'}", kind="onoff", solver=solver, K=3 if q else 4, f=f, m=m, async_=a,
                            devices=1, seed=seed, cost=3))
    return out


def scenario(job, dirs):
    name = job["solver"]
    kind = "forest" if job.get("route", "restore") == "restore" else "tab"
    ab = ckkit.Abstraction()
    V0 = sym("V0", (ckkit.NS,))

    def init(s):
        s.values = V0
        if name == "rvi":
            s.gain = lift(V0.val[ckkit.NS - 1])
        if name == "pvi":
            s.value_history[0] = V0
    from loguru import logger
    msgs = []

    def solve(s, k):
        hid = logger.add(lambda m: msgs.append(str(m)), level="INFO")
        try:
            n0 = len(msgs)
            s.solve(k)
            return any("Convergence threshold reached" in m or "Policy converged" in m for m in msgs[n0:])
        finally:
            logger.remove(hid)
    extra = job.get("extra") or {}
    ref = ckkit.make_solver(name, ckkit.make_problem(kind, job.get("seed", 0)), **extra)
    init(ref)
    ab.attach(ref, name, "ref")
    d = dirs.new()
    s = ckkit.make_solver(name, ckkit.make_problem(kind, job.get("seed", 0)), ckdir=d, f=job["f"], m=job["m"], async_=job["async_"], **extra)
    init(s)
    ab.attach(s, name, "run")
    interrupted_ok = True
    if job["kind"] == "resume":
        done = 0
        for k in job["ks"]:
            conv = solve(s, k)
            done += k
            if conv or s.iteration != done:
                interrupted_ok = False
                break
            s.checkpoint_manager.wait_until_finished()
            if job["route"] == "restore":
                s = type(s).restore(d)
            else:
                s = ckkit.make_solver(name, ckkit.make_problem(kind, job.get("seed", 0)), ckdir=d, f=job["f"], m=job["m"], async_=job["async_"], **extra)
                s.load_checkpoint(d)
            ab.attach(s, name, "run")
        if interrupted_ok:
            solve(s, job["K"] - done)
    else:
        solve(s, job["K"])
    solve(ref, job["K"])
    return dict(ok=interrupted_ok, a=ckkit.state_of(s), b=ckkit.state_of(ref), V0=val_of(V0), log=list(om.Store.log))


def run_job(job):
    ob = Obligations(job)
    dirs = ckkit.TempDirs()
    ex = pathx.Explorer(max_paths=300)

    def run():
        with symbolic():
            with om.installed():
                return scenario(job, dirs)
    try:
        with shadowed():
            outs = list(ex.explore(run))
    finally:
        dirs.cleanup()
    ob.extra["paths"] = len(outs)
    compared = 0
    for pi_, o in enumerate(outs):
        if o.exc is not None:
            from ..harness import exc_origin
            if exc_origin(o.exc) == "harness":
                ob.fail_harness(f"harness raised: {o.exc!r}")
                continue
            ob.prove(f"no-exception[path{pi_}]", o.pc, False, cex=lambda mm, o=o: dict(kind="exc", exc=repr(o.exc)))
            continue
        r = o.value
        if not r["ok"]:
            continue
        compared += 1
        ob.reach(f"path{pi_}", o.pc)
        for field, eq in ckkit.eq_state(r["a"], r["b"]):
            ob.prove(f"{field}[path{pi_}]", o.pc, eq, kind=f"resumed == uninterrupted: {field.split('[')[0]}" if job["kind"] == "resume" else
                     f"checkpointing on == off: {field.split('[')[0]}",
                     cex=lambda mm, r=r, field=field: dict(kind=job["kind"], field=field, final_iteration=[r["a"]["iteration"], r["b"]["iteration"]],
                                                           V0=[zx.model_value(mm, x) for x in r["V0"]]))
    ob.prove("some-path-compared", [], compared >= 1)
    return ob.result()


def finding_key(v):
    return f"{v['job'].get('solver')}:{v['job'].get('kind')}:{v['obligation'].split('[')[0]}"


def replay(data):
    """Real Orbax, real processes are not needed for the comparison itself: two solver objects, a real temporary
    directory, a concrete problem that does not converge within K sweeps; the final states must be identical."""
    c = unq(data["cex"]) or {}
    job = data["job"]
    if c.get("kind") == "exc":
        try:
            ok, msg = replay(dict(data, cex=dict(kind=job["kind"])))
            return ok, "no exception with the real Orbax; " + msg
        except Exception as ex:
            return True, f"real run raised {type(ex).__name__}: {ex}"
    name = job["solver"]
    kind = "forest" if job.get("route", "restore") == "restore" else "tab"
    fin = c.get("final_iteration") or [job["K"], job["K"]]
    target = int(fin[1]) if int(fin[1]) < job["K"] else None   # iteration at which the uninterrupted run converges on this path
    bad_all = []
    for variant in ("real-sweeps", "forced-convergence-pattern"):
        dirs = ckkit.TempDirs()
        try:
            d = dirs.new()
            eps = 1e-12 if variant == "real-sweeps" else 1e-3
            mk = lambda **kw: ckkit.make_solver(name, ckkit.make_problem(kind, job.get("seed", 0)), epsilon=eps, **dict(job.get("extra") or {}, **kw))

            def force(s):
                if variant == "real-sweeps":
                    return s
                p = getattr(s, "period", 1)

                def upd(bs, a, e, g, v, s=s):
                    v = np.asarray(v)
                    inwin = target is not None and target - p < s.iteration <= target
                    return jnp.asarray(v + 1.0 if inwin else v * 0.5 + (np.arange(len(v)) + 1.0) * 10.0 * s.iteration)
                s._update_values = upd
                if name == "pi":
                    s._calculate_policy_values = lambda policy, values, s=s: jnp.asarray(np.asarray(values) * 0.5 + s.iteration)
                    s._extract_policy = lambda *a, s=s, **k: (s.policy if (target is not None and s.iteration == target) else (jnp.asarray(s.policy) + 1) % 2)
                return s
            ref = force(mk())
            s = force(mk(ckdir=d, f=job["f"], m=job["m"], async_=job["async_"]))
            if job["kind"] == "resume":
                done = 0
                for k in job["ks"]:
                    s.solve(k)
                    done += k
                    s.checkpoint_manager.wait_until_finished()
                    if job["route"] == "restore":
                        s = force(type(s).restore(d))
                    else:
                        s = force(mk(ckdir=d, f=job["f"], m=job["m"], async_=job["async_"]))
                        s.load_checkpoint(d)
                s.solve(job["K"] - done)
            else:
                s.solve(job["K"])
            s.checkpoint_manager.wait_until_finished()
            ref.solve(job["K"])
            bad = []
            if s.iteration != ref.iteration:
                bad.append(f"iteration {s.iteration} vs {ref.iteration}")
            if not np.array_equal(np.asarray(s.values), np.asarray(ref.values)):
                bad.append(f"values {np.asarray(s.values)} vs {np.asarray(ref.values)}")
            if not np.array_equal(np.asarray(s.policy), np.asarray(ref.policy)):
                bad.append("policy")
            if hasattr(ref, "gain") and float(s.gain) != float(ref.gain):
                bad.append(f"gain {s.gain} vs {ref.gain}")
            if hasattr(ref, "history_index"):
                if s.history_index != ref.history_index or not np.array_equal(np.asarray(s.value_history), np.asarray(ref.value_history)):
                    bad.append("value history")
            if bad:
                bad_all.append(f"[{variant}] " + "; ".join(bad))
        finally:
            dirs.cleanup()
    return bool(bad_all), f"{job['name']}: " + (" | ".join(bad_all) or "resumed run identical to the uninterrupted run")

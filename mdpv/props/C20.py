"""C20 - configuration contract: valid parameters work by every route, invalid ones are rejected."""
from __future__ import annotations

import builtins
import itertools
import json
import os
import shutil
import subprocess
import sys
import tempfile
from fractions import Fraction

import jax
import jax.numpy as jnp
import numpy as np
import z3

from .. import ckkit, kit, pathx, zx
from ..harness import Obligations, tofloat, unq
from ..pathx import SymBool, SymInt, SymReal, unwrap
from ..stubs.common import NPShim, USweep, patched, sfloat
from ..trace import SymTracer, lift, sym, symbolic, val_of

ID = "C20"
LEVEL = "model_checking"
REPLAY_X64 = False
FUNCTIONS = ["ValueIterationConfig/PolicyIterationConfig/RelativeValueIterationConfig/PeriodicValueIterationConfig/SemiAsyncValueIterationConfig.__post_init__",
             "ForestConfig/DeMoorSingleProductPerishableConfig/HendrixTwoProductPerishableConfig/MirjaliliPlateletPerishableConfig.__post_init__",
             "mdpax.utils.logging.verbosity_to_loguru_level/get_convergence_format", "<solver>._setup_convergence_testing", "<solver>.solve (progress messages)",
             "Solver._setup_config (three construction routes)", "CheckpointMixin.restore (config reloaded from YAML)"]
RULE = ("(a) every validator runs on symbolic numeric fields (string fields enumerated) under the path explorer: accepted paths must imply the "
        "documented domain, rejecting paths its complement, exception types must be ValueError/TypeError; (b) threshold set-up, number format "
        "(log10/floor contract) and one solve iteration with every progress message run for symbolic gamma in [0,1] and epsilon in [1e-15,1e10]: "
        "no path may raise; (c) the three construction routes are executed concretely on several parameter sets and their solvers/results "
        "compared; (d) dtypes are read in fresh processes without 64-bit mode, for both construction orders.")
ASSUMPTIONS = [
    "floor(log10 x) = k  <=>  10^k <= x < 10^(k+1), k in [-15, 9] (contract for np.log10/np.floor on a symbolic real)",
    "`isinstance(x, float/int)` is shadowed in mdpax.utils.logging so that symbolic reals/ints count as float/int; `float` shadowed in solver modules",
    "(c) and (d) are concrete executions (route equivalence after YAML, dtypes): abstract evaluation, not SMT claims",
    "(b) abstracts the sweep by an uninterpreted function; S=3",
]
OUTSIDE = "epsilon outside [1e-15, 1e10]; parameters of problems beyond the enumerated string/length cases; precision of tables a user built before enabling 64-bit mode"
EXPLANATION = "validators and set-up code executed on symbolic host scalars under the path explorer; routes/precision by concrete runs in fresh processes"
JOB_TIMEOUT = {"quick": 2400, "thorough": 7200}


def bounds(tier):
    return {"validators": "9 config classes + verbosity mapping; numeric fields symbolic unbounded", "solve": "5 solvers, gamma in [0,1], eps in [1e-15,1e10), both convergence tests",
            "routes": "5 solvers x {Forest, De Moor} x 2 parameter sets, Hendrix and Mirjalili with the first set" + ("" if tier == "quick" else " (thorough: all four problems x all sets)"), "precision": "5 solvers x 2 orders, fresh processes"}


def jobs(tier, seed):
    out = []
    for cls in ("vi", "pi", "rvi", "pvi", "savi", "forest", "de_moor", "hendrix", "mirjalili", "verbosity"):
        out.append(dict(name=f"validator-{cls}", kind="validator", cls=cls, devices=1, cost=10))
    for solver in ("vi", "pi", "rvi", "pvi", "savi"):
        for test in (("span", "max_diff") if solver in ("vi", "pi", "savi") else ("span",)):
            out.append(dict(name=f"solve-{solver}-{test}", kind="solve", solver=solver, test=test, devices=1, cost=40))
        out.append(dict(name=f"routes-{solver}", kind="routes", solver=solver, all_problems=(tier != "quick"), devices=1, cost=30 if tier == "quick" else 90))
        out.append(dict(name=f"precision-{solver}", kind="precision", solver=solver, devices=1, cost=30))
    return out


# ---------------------------------------------------------------------------------------------
# (a) validators

def _domain_solver(cls, f):
    g, e = f["gamma"], f["epsilon"]
    d = z3.And(e > 0, f["max_batch_size"] > 0, f["checkpoint_frequency"] >= 0, f["max_checkpoints"] >= 0, f["verbose"] >= 0, f["verbose"] <= 4)
    if cls == "rvi":
        d = z3.And(d, g == 1)
    else:
        d = z3.And(d, g >= 0, g <= 1)
    if cls == "pvi":
        d = z3.And(d, f["period"] > 0, z3.Implies(g == 1, f["period"] >= 2))
    if cls == "pi":
        d = z3.And(d, f["max_eval_iter"] > 0)
    return d


def validator_cases(cls):
    """yields (label, constructor thunk, fields dict of z3 terms, domain term, concrete ok flag)"""
    R, I = z3.Real, z3.Int
    if cls in ("vi", "pi", "rvi", "pvi", "savi"):
        C = kit.solver_class(cls).Config
        tests = ("span", "max_diff", "other") if cls in ("vi", "pi", "savi") else (None,)
        for t in tests:
            f = dict(gamma=R("gamma"), epsilon=R("epsilon"), max_batch_size=I("max_batch_size"), checkpoint_frequency=I("checkpoint_frequency"),
                     max_checkpoints=I("max_checkpoints"), verbose=I("verbose"))
            kw = dict(gamma=SymReal(f["gamma"]), epsilon=SymReal(f["epsilon"]), max_batch_size=SymInt(f["max_batch_size"]),
                      checkpoint_frequency=SymInt(f["checkpoint_frequency"]), max_checkpoints=SymInt(f["max_checkpoints"]), verbose=SymInt(f["verbose"]))
            if cls == "pvi":
                f["period"] = I("period")
                kw["period"] = SymInt(f["period"])
            if cls == "pi":
                f["max_eval_iter"] = I("max_eval_iter")
                kw["max_eval_iter"] = SymInt(f["max_eval_iter"])
            if t is not None:
                kw["convergence_test"] = t
            yield f"{cls}[{t}]", (lambda C=C, kw=kw: C(**kw)), f, _domain_solver(cls, f), (t in (None, "span", "max_diff"))
        yield f"{cls}[problem-not-a-config]", (lambda C=C: C(problem=object())), {}, z3.BoolVal(False), False
    elif cls == "forest":
        from mdpax.problems.forest import ForestConfig
        f = dict(S=I("S"), p=R("p"))
        yield "forest", (lambda: ForestConfig(S=SymInt(f["S"]), p=SymReal(f["p"]))), f, z3.And(f["S"] > 0, f["p"] >= 0, f["p"] <= 1), True
    elif cls == "de_moor":
        from mdpax.problems.perishable_inventory.de_moor_single_product import DeMoorSingleProductPerishableConfig as C
        for pol in ("fifo", "lifo", "FIFO"):
            f = dict(max_demand=I("max_demand"), mean=R("mean"), cov=R("cov"), m=I("m"), L=I("L"), Q=I("Q"))
            yield f"de_moor[{pol}]", (lambda pol=pol, f=f: C(max_demand=SymInt(f["max_demand"]), demand_gamma_mean=SymReal(f["mean"]), demand_gamma_cov=SymReal(f["cov"]),
                                                            max_useful_life=SymInt(f["m"]), lead_time=SymInt(f["L"]), max_order_quantity=SymInt(f["Q"]), issue_policy=pol)), f, \
                z3.And(f["max_demand"] > 0, f["mean"] > 0, f["cov"] > 0, f["m"] >= 1, f["L"] >= 1, f["Q"] > 0), pol in ("fifo", "lifo")
    elif cls == "hendrix":
        from mdpax.problems.perishable_inventory.hendrix_two_product import HendrixTwoProductPerishableConfig as C
        f = dict(m=I("m"), ma=R("ma"), mb=R("mb"), sp=R("sp"), Qa=I("Qa"), Qb=I("Qb"))
        yield "hendrix", (lambda: C(max_useful_life=SymInt(f["m"]), demand_poisson_mean_a=SymReal(f["ma"]), demand_poisson_mean_b=SymReal(f["mb"]),
                                    substitution_probability=SymReal(f["sp"]), max_order_quantity_a=SymInt(f["Qa"]), max_order_quantity_b=SymInt(f["Qb"]))), f, \
            z3.And(f["m"] >= 1, f["ma"] > 0, f["mb"] > 0, f["sp"] >= 0, f["sp"] <= 1, f["Qa"] > 0, f["Qb"] > 0), True
    elif cls == "mirjalili":
        from mdpax.problems.perishable_inventory.mirjalili_platelet import MirjaliliPlateletPerishableConfig as C
        for (ln, ld, m, lc0, lc1) in [(7, 7, 3, 2, 2), (6, 7, 3, 2, 2), (7, 8, 3, 2, 2), (7, 7, 3, 1, 2), (7, 7, 3, 2, 3), (7, 7, 1, 0, 0), (7, 7, 2, 1, 1)]:
            ns = [R(f"n{i}") for i in range(ln)]
            ds = [R(f"d{i}") for i in range(ld)]
            f = dict(max_demand=I("max_demand"), Q=I("Q"), **{f"n{i}": x for i, x in enumerate(ns)}, **{f"d{i}": x for i, x in enumerate(ds)})
            dom = z3.And(f["max_demand"] > 0, f["Q"] > 0, *[x > 0 for x in ns], *[x > 0 for x in ds])
            ok = (ln == 7 and ld == 7 and lc0 == m - 1 and lc1 == m - 1)
            yield f"mirjalili[{ln},{ld},{m},{lc0},{lc1}]", (lambda ns=ns, ds=ds, m=m, lc0=lc0, lc1=lc1, f=f: C(
                max_demand=SymInt(f["max_demand"]), weekday_demand_negbin_n=tuple(SymReal(x) for x in ns), weekday_demand_negbin_delta=tuple(SymReal(x) for x in ds),
                max_useful_life=m, useful_life_at_arrival_distribution_c_0=tuple([0.5] * lc0), useful_life_at_arrival_distribution_c_1=tuple([0.0] * lc1),
                max_order_quantity=SymInt(f["Q"]))), f, dom, ok
        f = dict(m=I("m"))
        yield "mirjalili[useful-life]", (lambda: C(max_useful_life=SymInt(f["m"]), useful_life_at_arrival_distribution_c_0=(), useful_life_at_arrival_distribution_c_1=())), f, f["m"] == 1, True
    elif cls == "verbosity":
        import mdpax.utils.logging as lg
        f = dict(verbose=I("verbose"))
        yield "verbosity", (lambda: lg.verbosity_to_loguru_level(SymInt(f["verbose"]))), f, z3.And(f["verbose"] >= 0, f["verbose"] <= 4), True
        yield "verbosity[not-int]", (lambda: lg.verbosity_to_loguru_level("2")), {}, z3.BoolVal(False), False


def _isinstance_shim(x, t):
    if isinstance(x, SymReal) and t is float:
        return True
    if isinstance(x, SymInt) and t is int:
        return True
    return builtins.isinstance(x, t)


def run_validator(job, ob):
    import mdpax.utils.logging as lg
    for label, thunk, fields, domain, string_ok in validator_cases(job["cls"]):
        ex = pathx.Explorer(max_paths=400, catch=(Exception,))
        with patched(lg, isinstance=_isinstance_shim):
            outs = list(ex.explore(thunk))
        acc = rej = 0
        for pi_, o in enumerate(outs):
            cex = lambda m, o=o: dict(kind="validator", case=label, fields={k: zx.model_value(m, v) for k, v in fields.items()}, accepted=o.exc is None,
                                      exc=None if o.exc is None else type(o.exc).__name__)
            dom = domain if string_ok else z3.BoolVal(False)
            if o.exc is None:
                acc += 1
                ob.prove(f"accepted=>valid[{label},path{pi_}]", o.pc, dom, cex=cex, kind="accepted parameter sets lie in the documented domain")
            else:
                rej += 1
                ob.prove(f"rejected=>invalid[{label},path{pi_}]", o.pc, z3.Not(dom), cex=cex, kind="rejected parameter sets lie outside the documented domain")
                ob.prove(f"exception-type[{label},path{pi_}]", [], isinstance(o.exc, (ValueError, TypeError)), cex=cex, kind="rejection raises ValueError or TypeError")
        ob.prove(f"paths-explored[{label}]", [], (acc >= 1) == string_ok and (rej >= 1 or not fields), cex=lambda m: dict(kind="validator", case=label, fields={}, accepted=None))
        ob.extra["paths"] = ob.extra.get("paths", 0) + len(outs)
    return ob.result()


# ---------------------------------------------------------------------------------------------
# (b) construction / solve for every accepted gamma, epsilon

class Log10:
    def __init__(self, x):
        self.x = x

    def __floor__(self):
        return FloorLog10(self.x)

    def floor(self):
        return FloorLog10(self.x)


class FloorLog10:
    """floor(log10 x): int() case-splits over decades through the explorer"""

    def __init__(self, x):
        self.x = x

    def __int__(self):
        x = self.x
        for k in range(-15, 10):
            lo = z3.RealVal(10) ** k if k >= 0 else 1 / (z3.RealVal(10) ** (-k))
            lo = z3.simplify(lo)
            hi = z3.simplify(lo * 10)
            if pathx.branch(z3.And(x >= lo, x < hi)):
                return k
        raise pathx.PathAbort()  # outside the stated epsilon range

    __index__ = __int__


SymReal.log10 = lambda self: Log10(zx.Z(self.e))


def run_solve(job, ob):
    import mdpax.utils.logging as lg
    from .C08 import solver_modules
    name = job["solver"]
    gam, eps = z3.Real("gamma"), z3.Real("eps")
    ex = pathx.Explorer(max_paths=2000, catch=(Exception,))

    def run():
        pb = ckkit.make_problem("forest")
        kw = dict(max_batch_size=2, verbose=2)   # default verbosity: every progress message is formatted
        if name in ("vi", "pi", "savi"):
            kw["convergence_test"] = job["test"]
        if name == "pvi":
            kw["period"] = 2
        if name == "pi":
            kw["max_eval_iter"] = 1
        with symbolic():
            solver = kit.make_solver(name, pb, **kw)
            pathx.CUR.assume(z3.And(eps >= z3.RealVal("1/1000000000000000"), eps < z3.RealVal(10) ** 10))
            if name == "rvi":
                pathx.CUR.assume(gam == 1)
            else:
                pathx.CUR.assume(z3.And(gam >= 0, gam <= 1))
                solver.gamma = lift(gam)
            solver.epsilon = lift(eps)
            solver._setup_convergence_testing()
            ab = ckkit.Abstraction()
            ab.attach(solver, name, "s")
            st = solver.solve(1)
            return dict(fmt=solver.convergence_format, it=st.info.iteration)

    def float_shim(x):
        if isinstance(x, SymTracer):
            return SymReal(x.val.reshape(())[()])
        return float(x)
    mods = solver_modules()
    import mdpax.solvers.periodic_value_iteration as pv
    cms = [patched(m, float=float_shim) for m in mods] + [patched(lg, isinstance=_isinstance_shim), patched(pv, np=NPShim())]
    for c in cms:
        c.__enter__()
    try:
        outs = list(ex.explore(run))
    finally:
        for c in reversed(cms):
            c.__exit__(None, None, None)
    ob.extra["paths"] = len(outs)
    fmts = set()
    for pi_, o in enumerate(outs):
        cex = lambda m, o=o: dict(kind="solve", solver=name, test=job.get("test"), gamma=zx.model_value(m, gam), eps=zx.model_value(m, eps),
                                  exc=None if o.exc is None else f"{type(o.exc).__name__}: {o.exc}")
        ob.reach(f"path{pi_}", o.pc)
        ob.prove(f"construct-and-solve-complete[path{pi_}]", o.pc, o.exc is None, cex=cex,
                 kind="every accepted gamma/epsilon yields a solver whose solve() completes")
        if o.exc is None:
            fmts.add(o.value["fmt"])
            ob.prove(f"format-valid[path{pi_}]", o.pc if not _fmt_ok(o.value["fmt"]) else [], _fmt_ok(o.value["fmt"]), cex=cex, kind="number format derived from the threshold is a valid format specification")
    ob.extra["formats_seen"] = sorted(fmts)
    return ob.result()


def _fmt_ok(f):
    try:
        format(1.0, f)
        return True
    except Exception:
        return False


# ---------------------------------------------------------------------------------------------
# (c) routes

def route_params(name):
    base = dict(gamma=0.85, epsilon=0.02, max_batch_size=3, verbose=0)
    if name == "rvi":
        base["gamma"] = 1.0
    if name == "pvi":
        base["period"] = 2
    if name == "pi":
        base["max_eval_iter"] = 7
    alt = dict(base, epsilon=0.5, max_batch_size=64)
    if name == "savi":
        alt.update(shuffle_states=True, random_seed=11)
    if name != "rvi":
        alt["gamma"] = 0.5
    return [base, alt]


def _same_value(a, b):
    try:
        return list(a) == list(b)
    except TypeError:
        return a == b


def run_routes(job, ob):
    from mdpax.problems.forest import Forest, ForestConfig
    from mdpax.problems.perishable_inventory.de_moor_single_product import DeMoorSingleProductPerishable as DM, DeMoorSingleProductPerishableConfig as DMC
    name = job["solver"]
    cls = kit.solver_class(name)
    base = tempfile.mkdtemp(prefix="mdpv-routes-")
    try:
        from mdpax.problems.perishable_inventory.hendrix_two_product import HendrixTwoProductPerishable as HX, HendrixTwoProductPerishableConfig as HXC
        from mdpax.problems.perishable_inventory.mirjalili_platelet import MirjaliliPlateletPerishable as MJ, MirjaliliPlateletPerishableConfig as MJC
        problems = [("forest", Forest, ForestConfig, dict(S=4, r1=3.0, p=0.2)),
                    ("de_moor", DM, DMC, dict(max_demand=3, max_useful_life=2, lead_time=1, max_order_quantity=2, issue_policy="fifo"))]
        # the other two shipped problems (tuple-valued parameters that pass through YAML / Hydra), first parameter set only
        more = [("hendrix", HX, HXC, dict(max_useful_life=1, max_order_quantity_a=2, max_order_quantity_b=1, demand_poisson_mean_a=1.0, demand_poisson_mean_b=0.6)),
                ("mirjalili", MJ, MJC, dict(max_demand=2, max_useful_life=2, max_order_quantity=1, useful_life_at_arrival_distribution_c_0=(0.75,),
                                            useful_life_at_arrival_distribution_c_1=(0.125,), weekday_demand_negbin_n=(3.5, 11.0, 7.2, 11.1, 5.9, 5.5, 2.2)))]
        for pi_, params in enumerate(route_params(name)):
            for pname, P, PC, pkw in (problems + more if (pi_ == 0 or job.get("all_problems")) else problems):
                res = {}
                errs = {}
                for route in ("instance+kwargs", "config-only", "reloaded"):
                    try:
                        if route == "instance+kwargs":
                            s = cls(P(**pkw), **params)
                        elif route == "config-only":
                            s = cls(config=cls.Config(problem=PC(**pkw), **params))
                        else:
                            d = os.path.join(base, f"{pname}{pi_}")
                            s0 = cls(P(**pkw), checkpoint_dir=d, checkpoint_frequency=1, **params)
                            s0.save(0) if False else None
                            s0.solve(1)
                            s0.checkpoint_manager.wait_until_finished()
                            s = cls.restore(d, step=1, checkpoint_frequency=0) if False else cls.restore(d)
                            # compare from the same starting point: rebuild fresh state
                            s = cls(config=s.config) if False else s
                        res[route] = s
                    except Exception as e:
                        errs[route] = f"{type(e).__name__}: {e}"
                cex = lambda m, pname=pname, params=params, errs=errs: dict(kind="routes", solver=name, problem=pname, params=params, errors=dict(errs))
                for route in ("instance+kwargs", "config-only", "reloaded"):
                    ob.prove(f"route-works[{route},{pname},{pi_}]", [], route in res, cex=cex, kind=f"construction route works: {route}")
                if len(res) >= 2:
                    ref = res["instance+kwargs"]
                    for route, s in res.items():
                        if route == "instance+kwargs":
                            continue
                        same = (float(s.gamma) == float(ref.gamma) and s.epsilon == ref.epsilon and s.max_batch_size == ref.max_batch_size and
                                type(s.problem) is type(ref.problem) and all(_same_value(getattr(s.problem.config, k), v) for k, v in pkw.items()) and
                                float(s.conv_threshold) == float(ref.conv_threshold) and
                                all(getattr(s.config, k) == getattr(ref.config, k) for k in params))
                        ob.prove(f"route-equivalent-config[{route},{pname},{pi_}]", [], bool(same), cex=cex, kind="routes yield identically configured solvers")
                    # behaviour: fresh solvers by both in-memory routes produce identical results
                    if "config-only" in res:
                        a = cls(P(**pkw), **params).solve(4)
                        b = cls(config=cls.Config(problem=PC(**pkw), **params)).solve(4)
                        same = a.info.iteration == b.info.iteration and np.array_equal(np.asarray(a.values), np.asarray(b.values)) and \
                            np.array_equal(np.asarray(a.policy), np.asarray(b.policy))
                        ob.prove(f"route-equivalent-results[{pname},{pi_}]", [], bool(same), cex=cex, kind="routes behave identically")
                    if "reloaded" in res and not params.get("shuffle_states"):
                        # (with shuffling the PRNG key is not part of the saved state: a reloaded solver may draw other permutations)
                        s = res["reloaded"]
                        a = cls(P(**pkw), **params)
                        a.solve(1)
                        a.solve(3)
                        b = s.solve(3)
                        same = a.iteration == b.info.iteration and np.array_equal(np.asarray(a.values), np.asarray(b.values))
                        ob.prove(f"reloaded-equivalent-results[{pname},{pi_}]", [], bool(same), cex=cex, kind="routes behave identically")
    finally:
        shutil.rmtree(base, ignore_errors=True)
    return ob.result()


# ---------------------------------------------------------------------------------------------
# (d) precision in fresh processes

PRECISION_SCRIPT = r'''
import json, sys
import jax, jax.numpy as jnp
name, order, ckdir = sys.argv[1], sys.argv[2], sys.argv[3]
from mdpax.problems import Forest
from mdpax.problems.perishable_inventory.de_moor_single_product import DeMoorSingleProductPerishable as DM
import mdpax.solvers as ms
cls = {"vi": ms.ValueIteration, "pi": ms.PolicyIteration, "rvi": ms.RelativeValueIteration, "pvi": ms.PeriodicValueIteration, "savi": ms.SemiAsyncValueIteration}[name]
kw = dict(verbose=0, epsilon=1e-9)
if name == "pvi": kw["period"] = 2
if name != "rvi": kw["gamma"] = 0.9
dmkw = dict(max_demand=3, max_useful_life=2, lead_time=1, max_order_quantity=2)
x64_before = bool(jax.config.jax_enable_x64)
if order == "problem-first":
    pb = DM(**dmkw)
    s = cls(pb, **kw)
elif order == "solver-first":
    # solver first (any solver construction enables 64-bit mode), then the problem actually solved
    cls(Forest(S=3), **kw)
    pb = DM(**dmkw)
    s = cls(pb, **kw)
elif order == "double-then-single-precision-solver":
    # the solver under test asks for double precision (default); another solver created afterwards asks for single
    cls(Forest(S=3), **kw)
    pb = DM(**dmkw)
    s = cls(pb, **kw)
    cls(Forest(S=3), jax_double_precision=False, **kw)
elif order == "config-only":
    from mdpax.problems.perishable_inventory.de_moor_single_product import DeMoorSingleProductPerishableConfig as DMC
    s = cls(config=cls.Config(problem=DMC(**dmkw), **kw))
    pb = s.problem
elif order == "make-checkpoint":
    jax.config.update("jax_enable_x64", True)
    s = cls(DM(**dmkw), checkpoint_dir=ckdir, checkpoint_frequency=1, **kw)
    s.solve(1); s.checkpoint_manager.wait_until_finished()
    print("@@", json.dumps(dict(made=True))); sys.exit(0)
else:  # restore in a fresh process
    s = cls.restore(ckdir)
    pb = s.problem
st = s.solve(2)
print("@@", json.dumps(dict(x64_before=x64_before, gamma=str(jnp.asarray(s.gamma).dtype), values=str(st.values.dtype), initial=str(s._initialize_values(s.batched_states).dtype),
                            gamma_exact=float(s.gamma) == (1.0 if name == "rvi" else 0.9), tables=str(pb.demand_probabilities.dtype), costs=str(pb.cost_components.dtype))))
'''


def _fresh(name, order, ckdir):
    env = dict(os.environ)
    env.pop("JAX_ENABLE_X64", None)
    cp = subprocess.run([sys.executable, "-c", PRECISION_SCRIPT, name, order, ckdir], env=env, capture_output=True, text=True, timeout=900)
    line = [l for l in cp.stdout.splitlines() if l.startswith("@@")]
    return (json.loads(line[0][2:]) if line else None), cp.stderr[-300:]


def run_precision(job, ob):
    name = job["solver"]
    base = tempfile.mkdtemp(prefix="mdpv-prec-")
    try:
        ckdir = os.path.join(base, "ck")
        _fresh(name, "make-checkpoint", ckdir)
        for order in ("problem-first", "solver-first", "double-then-single-precision-solver", "config-only", "restore"):
            r, err = _fresh(name, order, ckdir)
            cex = lambda m, order=order: dict(kind="precision", solver=name, order=order)
            if r is None:
                ob.prove(f"precision-run[{order}]", [], False, cex=cex, kind="fresh-process run completes")
                ob.extra.setdefault("precision_errors", []).append(err)
                continue
            ob.extra.setdefault("precision", []).append(dict(order=order, **r))
            ob.prove(f"fresh-process-starts-without-x64[{order}]", [], r["x64_before"] is False, cex=cex)
            ob.prove(f"gamma-float64[{order}]", [], r["gamma"] == "float64" and r["gamma_exact"], cex=cex, kind="discount factor held in float64 (not rounded to float32)")
            ob.prove(f"values-float64[{order}]", [], r["values"] == "float64" and r["initial"] == "float64", cex=cex, kind="values computed and returned in float64")
            ob.prove(f"problem-tables-float64[{order}]", [], r["tables"] == "float64" and r["costs"] == "float64", cex=cex,
                     kind="the problem's own probability/cost tables are float64 (no float32-rounded inputs to the float64 sweeps)")
    finally:
        shutil.rmtree(base, ignore_errors=True)
    return ob.result()


def run_job(job):
    ob = Obligations(job, default_timeout_ms=60000)
    return {"validator": run_validator, "solve": run_solve, "routes": run_routes, "precision": run_precision}[job["kind"]](job, ob)


def finding_key(v):
    c = v.get("cex") or {}
    k = v["job"].get("kind")
    base = v["obligation"].split("[")[0]
    if k == "solve":
        g = c.get("gamma")
        exc = (c.get("exc") or "").split(":")[0]
        return f"solve:{base}:{exc}:{'gamma0' if g in (0, 0.0) or g == {'q': [0, 1]} else 'gamma+'}"
    if k == "routes":
        errs = c.get("errors") or {}
        return f"routes:{base}:{','.join(sorted(e.split(':')[0] for e in errs.values()))}"
    if k == "precision":
        return f"precision:{base}:{c.get('order')}"
    return f"{k}:{base}"


def replay(data):
    c = unq(data["cex"]) or {}
    job = data["job"]
    k = c.get("kind")
    if k == "validator":
        jax.config.update("jax_enable_x64", True)
        case = c["case"]
        for label, thunk, fields, domain, string_ok in validator_cases(job["cls"]):
            if label != case:
                continue
            vals = {kk: (int(v) if isinstance(v, int) or (isinstance(v, Fraction) and False) else float(v)) for kk, v in c["fields"].items()}
            # rebuild the call with concrete values by substituting into the symbolic constructor
            s = z3.Solver()
            for kk, v in c["fields"].items():
                s.add(fields[kk] == zx.Z(v))
            s.add(domain if string_ok else z3.BoolVal(False))
            in_domain = s.check() == z3.sat
            import mdpax.utils.logging as lg
            ex = pathx.Explorer(catch=(Exception,))
            pre = [fields[kk] == zx.Z(v) for kk, v in c["fields"].items()]
            with patched(lg, isinstance=_isinstance_shim):
                outs = list(ex.explore(thunk, pre))
            accepted = outs[0].exc is None
            bad = accepted != in_domain or (outs[0].exc is not None and not isinstance(outs[0].exc, (ValueError, TypeError)))
            return bool(bad), f"{case} with {vals}: accepted={accepted}, in documented domain={in_domain}, exception={type(outs[0].exc).__name__ if outs[0].exc else None}"
        return False, "case not found"
    if k == "solve":
        jax.config.update("jax_enable_x64", True)
        g, e = float(c["gamma"]), float(c["eps"])
        name = c["solver"]
        kw = dict(epsilon=e, max_batch_size=2)
        if name != "rvi":
            kw["gamma"] = g
        if name in ("vi", "pi", "savi"):
            kw["convergence_test"] = c["test"]
        try:
            s = ckkit.make_solver(name, ckkit.make_problem("forest"), **kw)
            s.solve(2)
            return False, f"{name} gamma={g} epsilon={e}: constructed and solved"
        except Exception as ex:
            return True, f"{name}(gamma={g}, epsilon={e}, {c.get('test')}): {type(ex).__name__}: {ex}"
    if k == "routes":
        jax.config.update("jax_enable_x64", True)
        ob = Obligations(job)
        run_routes(job, ob)
        names = [v["obligation"] for v in ob.violations]
        return data["obligation"] in names, f"{job['name']}: failing {names[:4]}; errors {[v['cex'].get('errors') for v in ob.violations[:1]]}"
    if k == "precision":
        ob = Obligations(job)
        run_precision(job, ob)
        names = [v["obligation"] for v in ob.violations]
        return data["obligation"] in names, f"{job['name']}: failing {names}; observed {ob.extra.get('precision')}"
    return False, "unknown kind"

"""C01 - discounted solvers return near-optimal policies (and values) on convergence."""
from __future__ import annotations

import itertools
from fractions import Fraction

import jax
import jax.numpy as jnp
import numpy as np
import z3

from .. import kit, pathx, zx
from ..harness import Obligations, tofloat, unq
from ..trace import SymTracer, lift, sym, symbolic, val_of
from .C08 import shadowed

ID = "C01"
LEVEL = "model_checking"
FUNCTIONS = ["ValueIteration.solve/_iteration_step/_update_values/_get_span/_get_max_diff/_setup_convergence_testing/_extract_policy",
             "PolicyIteration.solve/_iteration_step/_evaluate_policy/_calculate_policy_values/_extract_policy",
             "SemiAsyncValueIteration.solve/_iteration_step/_update_values (scan with carried values, padding mask, shuffle)",
             "Solver._unbatch_results / BatchProcessor"]
RULE = ("One job per (solver, convergence test, shape, batch size, devices, probability pattern, gamma). The real solve(1) runs "
        "once per job from symbolic values V, rewards R, epsilon (and gamma where symbolic) with the successor table lifted "
        "to symbolic integers; the path that leaves the loop by the convergence break is selected; then every deterministic "
        "successor structure is substituted into the recorded terms and, with V_pi and V* introduced by their fixed-point "
        "equations, one obligation per state and bound is discharged.")
ASSUMPTIONS = [
    "0 < gamma < 1, epsilon > 0; floats as reals",
    "V_pi and V* are characterised by their fixed-point equations (unique for gamma < 1)",
    "S=2: gamma symbolic (nonlinear real arithmetic); S=3: gamma from the grid {1/2, 9/10} (linear arithmetic)",
    "two-event shapes use probability patterns from {0,1/4,1/2,3/4,1}",
    "policy iteration: the evaluation loop left by its own convergence test (max_eval_iter in {1,2}); arbitrary starting policy and values",
    "`float` and get_convergence_format shadowed in the solver modules (C20's subject)",
]
OUTSIDE = "S > 3, A > 2(3), gamma off the grid for S = 3, probability patterns off the grid, float rounding"
EXPLANATION = ("Real solve(1) under the z3-valued trace; optimality gap bounded via fixed-point unknowns. The pre-state of the "
               "iteration is arbitrary (a superset of reachable iterates), so the claim covers any state in which the stop rule fires.")
JOB_TIMEOUT = {"quick": 2400, "thorough": 7200}

PATTERNS = {"det": None, "half": [Fraction(1, 2), Fraction(1, 2)], "skew": [Fraction(1, 4), Fraction(3, 4)], "zero": [Fraction(0), Fraction(1)]}


def bounds(tier):
    return {"quick": "S2A2E1 gamma symbolic (all 16 structures); S2A2E2 patterns half/skew (all 256); S3A2E1 gamma 9/10 (all 729); "
                     "vi span/max_diff, pi span/max_diff, savi max_diff; bs in {1,2,S}; 1-2 devices",
            "thorough": "adds S3A2E1 gamma 1/2, S3A2E2(sampled 600), S3A3E1 (sampled 800), pi with 2-dim actions, two devices for vi/pi span and savi, savi bs {1,2,3,4} x devices {1,2}, shuffle seeds {0,42}"}[tier]


def jobs(tier, seed):
    out = []

    def add(solver, test, S, A, E, gamma, pat="det", bs=2, dv=1, da=1, shuffle=None, mei=2, sample=None, cost=1, chunk=None):
        nstruct = min(S ** (S * A * E), sample or 10 ** 9)
        if chunk is None and nstruct >= (600 if tier == "quick" else 200):
            # split the structure enumeration over several jobs so that the 14 workers share it
            k = 4 if tier == "quick" else 8
            for c in range(k):
                add(solver, test, S, A, E, gamma, pat, bs, dv, da, shuffle, mei, sample, cost, chunk=(c, k))
            return
        n = f"{solver}-{test}-S{S}A{A}E{E}-g{gamma}-{pat}-bs{bs}-dev{dv}-da{da}" + (f"-shuf{shuffle}" if shuffle is not None else "") + \
            (f"-mei{mei}" if solver == "pi" else "") + (f"-chunk{chunk[0]}of{chunk[1]}" if chunk else "")
        out.append(dict(name=n, chunk=chunk, solver=solver, test=test, S=S, A=A, E=E, gamma=gamma, pat=pat, bs=bs, devices=dv, da=da, shuffle=shuffle,
                        mei=mei, sample=sample, seed=seed, cost=cost * S ** (S * A * E)))
    for solver, test in (("vi", "span"), ("vi", "max_diff"), ("pi", "span"), ("pi", "max_diff"), ("savi", "max_diff")):
        # symbolic gamma needs nonlinear arithmetic; PI/max_diff was seen to time out there -> grid only
        if (solver, test) != ("pi", "max_diff"):
            add(solver, test, 2, 2, 1, "sym", bs=1 if solver == "savi" else 2, mei=1)
        if solver == "pi":
            add(solver, test, 2, 2, 1, "9/10", mei=2)
            add(solver, test, 2, 2, 1, "1/2", mei=1)
        add(solver, test, 2, 2, 2, "9/10", pat="half")
        add(solver, test, 3, 2, 1, "9/10", bs=2, cost=3)
        if tier == "thorough":
            if (solver, test) == ("vi", "span"):   # (max_diff, pi, savi with symbolic gamma and two events: single jobs ran 30-70+ min, outside)
                add(solver, test, 2, 2, 2, "sym", pat="skew")
            add(solver, test, 2, 2, 2, "1/2", pat="zero")
            add(solver, test, 3, 2, 1, "1/2", bs=3, cost=3)
            add(solver, test, 3, 2, 2, "9/10", pat="skew", sample=600, cost=1e-3)
            add(solver, test, 3, 3, 1, "9/10", sample=800, cost=1e-3)
            if (solver, test) in (("vi", "span"), ("pi", "span"), ("savi", "max_diff")):
                add(solver, test, 3, 2, 1, "9/10", bs=2, dv=2, cost=3)
    add("savi", "max_diff", 3, 2, 1, "9/10", bs=1, cost=3)
    add("pi", "max_diff", 2, 4, 1, "9/10", da=2, sample=64, mei=1)   # two-component action vectors
    add("savi", "max_diff", 2, 2, 1, "sym", bs=2, dv=2)
    if tier == "thorough":
        # (sized so that the whole tier finishes: each S=3 configuration enumerates 729 successor structures)
        for bs in (3, 4):
            for dv in (1, 2):
                add("savi", "max_diff", 3, 2, 1, "9/10", bs=bs, dv=dv, cost=3)
        for sd in (0, 42):
            add("savi", "max_diff", 3, 2, 1, "9/10", bs=2, shuffle=sd, cost=3)
        add("pi", "span", 2, 4, 1, "1/2", da=2, sample=120)
        add("pi", "max_diff", 2, 4, 1, "9/10", da=2, sample=120)
    return out


def gamma_term(job):
    if job["gamma"] == "sym":
        return z3.Real("gamma")
    a, b = job["gamma"].split("/")
    return Fraction(int(a), int(b))


def make(job):
    S, A, E = job["S"], job["A"], job["E"]
    cfg = dict(S=S, A=A, E=E, ds=1, da=job.get("da", 1), de=1, offset=0, bs=job["bs"])
    pb = kit.make_tab(cfg, job.get("seed", 0))
    if PATTERNS[job["pat"]] is not None:
        P = np.zeros((S, A, E))
        P[:, :] = [float(x) for x in PATTERNS[job["pat"]]]
        pb.P = jnp.asarray(P)
    kw = dict(max_batch_size=job["bs"], convergence_test=job["test"], gamma=0.9, epsilon=0.01)
    if job["solver"] == "pi":
        kw["max_eval_iter"] = job.get("mei", 2)
    if job["solver"] == "savi" and job.get("shuffle") is not None:
        kw.update(shuffle_states=True, random_seed=job["shuffle"])
    return pb, kit.make_solver(job["solver"], pb, **kw)


def bound_for(job, eps, gam):
    s, t = job["solver"], job["test"]
    if s == "vi":
        return eps if t == "span" else 2 * eps
    if s == "pi":
        return eps / gam if t == "span" else 2 * eps / gam
    if s == "savi" and t == "max_diff":
        return 2 * gam * eps / (1 - gam)
    return None


def run_job(job):
    ob = Obligations(job, default_timeout_ms=120000)
    S, A, E = job["S"], job["A"], job["E"]
    gam = gamma_term(job)
    eps = z3.Real("eps")
    ex = pathx.Explorer(max_paths=200)
    holder = {}

    def run():
        pb, solver = make(job)
        with symbolic():
            L = kit.Lifted(pb, lift_P=False)
            holder["L"] = L
            base = L.pre + [eps > 0] + ([gam > 0, gam < 1] if zx.is_z(gam) else [])
            pathx.CUR.assume(z3.And(*base))
            solver.values = sym("V", (S,))
            # exact rational gamma inside the encoding (the float 0.9 is not 9/10)
            solver.gamma = lift(zx.Z(gam))
            solver.epsilon = lift(eps)
            solver._setup_convergence_testing()
            if job["solver"] == "pi":
                solver.policy = sym("PI", (S, job.get("da", 1)), "int")
                asp = np.asarray(pb.action_space)
                for k in range(asp.shape[1]):
                    for t in solver.policy.val[:, k]:
                        pathx.CUR.assume(zx.declare_bounds(t, int(asp[:, k].min()), int(asp[:, k].max())))
            convs = []
            orig = solver._convergence_test_fn

            def rec(*a, **k):
                c = orig(*a, **k)
                convs.append(val_of(c).reshape(())[()])
                return c
            solver._convergence_test_fn = rec
            nch = []
            if job["solver"] == "pi":
                orig_step = solver._iteration_step

                def step():
                    r = orig_step()
                    nch.append(val_of(r[1]).reshape(())[()])
                    return r
                solver._iteration_step = step
            eval_broke = []
            if job["solver"] == "pi":
                orig_eval = solver._evaluate_policy
                orig_calc = solver._calculate_policy_values
                calc_outs = []

                def calc(*a, **k):
                    o_ = orig_calc(*a, **k)
                    calc_outs.append(o_)
                    return o_
                solver._calculate_policy_values = calc

                def ev(*a, **k):
                    n0 = len(calc_outs)
                    o_ = orig_eval(*a, **k)
                    # the loop was left by its own test iff it returned a pre-update iterate (sweeps made inside this
                    # evaluation only: other uses of the one-step function elsewhere in the solver do not count)
                    eval_broke.append(len(calc_outs) > n0 and o_ is not calc_outs[-1])
                    return o_
                solver._evaluate_policy = ev
            from loguru import logger
            msgs = []
            hid = logger.add(lambda m: msgs.append(str(m)), level="INFO")
            try:
                st = solver.solve(1)
            finally:
                logger.remove(hid)
            reported = any("Convergence threshold reached" in m or "Policy converged" in m for m in msgs)
            # PI: the (last) evaluation loop was left by its own test iff its last measure is below the threshold on this path
            eval_break = True
            if job["solver"] == "pi":
                eval_break = bool(eval_broke and eval_broke[-1])
            return dict(reported=reported, eval_break=eval_break,W=val_of(st.values), pol=val_of(st.policy), thr=val_of(solver.conv_threshold).reshape(())[()], convs=convs, nch=nch,
                        V=val_of(sym("V", (S,))), PI=None if job["solver"] != "pi" else val_of(sym("PI", (S, job.get("da", 1)), "int")),
                        aspace=np.asarray(pb.action_space), P=np.asarray(pb.P))
    with shadowed():
        outs = list(ex.explore(run))
    ob.extra["paths"] = len(outs)
    conv_paths = []
    for o in outs:
        if o.exc is not None:
            from ..harness import exc_origin
            if exc_origin(o.exc) == "harness":
                ob.fail_harness(f"harness raised: {o.exc!r}")
                continue
            ob.fail_harness(f"real code raised under symbolic execution: {o.exc!r}")
            continue
        r = o.value
        # "reports convergence" is taken from the solver's own log message, not from a re-derived test
        converged = r["reported"] and r["eval_break"]
        if converged:
            conv_paths.append((o.pc, r))
    ob.prove("a-converged-path-exists", [], len(conv_paths) >= 1)
    L = holder["L"]
    structures = list(itertools.product(range(S), repeat=S * A * E))
    if job.get("sample") and len(structures) > job["sample"]:
        rng = np.random.default_rng(job.get("seed", 0))
        structures = [structures[i] for i in rng.choice(len(structures), job["sample"], replace=False)]
    if job.get("chunk"):
        structures = structures[job["chunk"][0]::job["chunk"][1]]
    ob.extra["structures"] = len(structures)
    Tvars = list(L.Tvec.reshape(-1))
    R = L.R
    bound = bound_for(job, eps, gam if zx.is_z(gam) else zx.Z(gam))
    Vp = [z3.Real(f"Vp{i}") for i in range(S)]
    Vs = [z3.Real(f"Vs{i}") for i in range(S)]
    gz = zx.Z(gam)
    for pi_, (pc, r) in enumerate(conv_paths):
        pcz = z3.And(*[c for c in pc if zx.is_z(c)])
        polidx = []
        for i in range(S):
            member, idx = kit.policy_row_index(list(r["pol"][i]), r["aspace"])
            polidx.append((member, idx))
        Pc = r["P"]
        checked_reach = False
        for Tt in structures:
            Tc = np.array(Tt).reshape(S, A, E)
            sub = [(Tvars[k], z3.IntVal(int(Tt[k]))) for k in range(len(Tvars))]
            pcs = z3.simplify(z3.substitute(pcz, *sub))
            if z3.is_false(pcs):
                continue
            cons = [pcs]

            def q(i, a, Vv):
                t = 0
                for e in range(E):
                    p = zx.from_np_scalar(Pc[i, a, e])
                    if p == 0:
                        continue
                    t = t + zx.Z(p) * (zx.Z(R[i, a, e]) + gz * Vv[int(Tc[i, a, e])])
                return t
            ok_member = True
            for i in range(S):
                member, idx = polidx[i]
                idx_s = z3.simplify(z3.substitute(zx.Z(idx), *sub)) if zx.is_z(idx) else zx.Z(idx)
                e_ = q(i, A - 1, Vp)
                for a in range(A - 2, -1, -1):
                    e_ = z3.If(idx_s == a, q(i, a, Vp), e_)
                cons.append(Vp[i] == e_)
                cons.append(Vs[i] == kit.zmax_list([q(i, a, Vs) for a in range(A)]))
                if zx.is_z(member):
                    ok_member = False  # membership is C02's obligation; here it must already be syntactically true
            tag = "".join(map(str, Tt))

            def cexf(m, Tc=Tc, r=r):
                return dict(T=Tc, R=kit.model_array(m, R), V=kit.model_array(m, r["V"]), gamma=zx.model_value(m, gz), eps=zx.model_value(m, eps),
                            PI=None if r["PI"] is None else kit.model_array(m, r["PI"]), P=[[[zx.from_np_scalar(x) for x in row] for row in pl] for pl in Pc])
            if not checked_reach:
                checked_reach = ob.reach(f"converged-path{pi_}", cons) == "sat"
            for i in range(S):
                if bound is not None:
                    ob.prove(f"policy-gap[{tag},{i}]", cons, Vs[i] - Vp[i] <= bound, cex=cexf, kind="V*(s) - V_pi(s) <= documented bound", direct=True)
                if job["test"] == "max_diff":
                    W = z3.simplify(z3.substitute(zx.Z(r["W"][i]), *sub))
                    if job["solver"] == "pi":
                        ob.prove(f"values-vs-Vpi[{tag},{i}]", cons, z3.And(W - Vp[i] <= eps / gz, Vp[i] - W <= eps / gz), cex=cexf,
                                 kind="|values - V_pi| <= eps/gamma (PI, max_diff)", direct=True)
                    elif job["solver"] == "vi":
                        ob.prove(f"values-vs-Vstar[{tag},{i}]", cons, z3.And(W - Vs[i] <= eps, Vs[i] - W <= eps), cex=cexf,
                                 kind="|values - V*| <= eps (VI, max_diff)", direct=True)
                    else:
                        ob.prove(f"values-vs-Vstar[{tag},{i}]", cons, z3.And(W - Vs[i] <= eps, Vs[i] - W <= eps), cex=cexf,
                                 kind="|values - V*| <= eps (semi-async, max_diff)", direct=True)
    return ob.result()


def _implied(pc, c):
    if zx.conc(c):
        return bool(c)
    s = z3.Solver()
    s.set("timeout", 30000)
    s.add(*[x for x in pc if zx.is_z(x)])
    s.add(z3.Not(c))
    return s.check() == z3.unsat


def finding_key(v):
    j = v["job"]
    return f"{j['solver']}/{j['test']}:{v['obligation'].split('[')[0]}"


def exact_eval(T, R, P, g, pol_idx):
    """exact policy evaluation and optimal values by linear solve / policy enumeration (float64)."""
    S, A, E = T.shape

    def v_of(pol):
        M = np.eye(S)
        b = np.zeros(S)
        for i in range(S):
            for e in range(E):
                M[i, T[i, pol[i], e]] -= g * P[i, pol[i], e]
                b[i] += P[i, pol[i], e] * R[i, pol[i], e]
        return np.linalg.solve(M, b)
    vp = v_of(pol_idx)
    best = None
    for pol in itertools.product(range(A), repeat=S):
        v = v_of(pol)
        best = v if best is None else np.maximum(best, v)
    return vp, best


def replay(data):
    c = unq(data["cex"])
    job = data["job"]
    from ..tab import Tab
    T = np.array(c["T"], dtype=np.int64)
    R = np.array(tofloat(c["R"]), dtype=float)
    P = np.array(tofloat(c["P"]), dtype=float)
    V = np.array(tofloat(c["V"]), dtype=float)
    g, e = float(c["gamma"]), float(c["eps"])
    S, A, E = T.shape
    pb = Tab(S, A, E, da=job.get("da", 1), T=T, R=R, P=P, V0=V)
    kw = dict(max_batch_size=job["bs"], convergence_test=job["test"], gamma=g, epsilon=e)
    if job["solver"] == "pi":
        kw["max_eval_iter"] = job.get("mei", 2)
    if job["solver"] == "savi" and job.get("shuffle") is not None:
        kw.update(shuffle_states=True, random_seed=job["shuffle"])
    solver = kit.make_solver(job["solver"], pb, **kw)
    if job["solver"] == "pi" and c.get("PI") is not None:
        solver.policy = jnp.asarray(np.array(c["PI"], dtype=np.int32))
    # the property speaks about runs that report convergence (and, for PI, whose evaluation was left by its own test)
    from loguru import logger
    msgs, evals, cv = [], [], []
    orig_c = solver._convergence_test_fn

    def rec(*a, **k):
        cv.append(float(orig_c(*a, **k)))
        return cv[-1]
    solver._convergence_test_fn = rec
    if job["solver"] == "pi":
        orig_e = solver._evaluate_policy
        orig_k = solver._calculate_policy_values
        kouts = []

        def kcalc(*a, **k):
            kouts.append(orig_k(*a, **k))
            return kouts[-1]
        solver._calculate_policy_values = kcalc

        def ev(*a, **k):
            n0 = len(kouts)
            o_ = orig_e(*a, **k)
            evals.append(len(kouts) > n0 and o_ is not kouts[-1])
            return o_
        solver._evaluate_policy = ev
    hid = logger.add(lambda m: msgs.append(str(m)), level="INFO")
    try:
        st = solver.solve(1)
    finally:
        logger.remove(hid)
    reported = any("Convergence threshold reached" in m or "Policy converged" in m for m in msgs)
    if not reported:
        return False, f"{job['name']}: the real run does not report convergence (precondition of the property)"
    if job["solver"] == "pi" and not (evals and evals[-1]):
        return False, f"{job['name']}: the real run's policy evaluation hit its budget without converging (precondition of the property)"
    asp = np.asarray(pb.action_space)
    pol = np.asarray(st.policy)
    pol_idx = [int(np.where((asp == pol[i]).all(1))[0][0]) for i in range(S)]
    vp, vs = exact_eval(T, R, P, g, pol_idx)
    W = np.asarray(st.values)
    bound = {("vi", "span"): e, ("vi", "max_diff"): 2 * e, ("pi", "span"): e / g, ("pi", "max_diff"): 2 * e / g,
             ("savi", "max_diff"): 2 * g * e / (1 - g)}.get((job["solver"], job["test"]))
    gap = float((vs - vp).max())
    kind = data["obligation"].split("[")[0]
    tol = 1e-9 * max(1.0, np.abs(vs).max())
    if kind == "policy-gap":
        bad = bound is not None and gap > bound + tol
        msg = f"max_s V*(s)-V_pi(s) = {gap:.6g} vs bound {bound:.6g}"
    elif kind == "values-vs-Vpi":
        d = float(np.abs(W - vp).max())
        bad, msg = d > e / g + tol, f"max |values - V_pi| = {d:.6g} vs eps/gamma {e / g:.6g}"
    else:
        d = float(np.abs(W - vs).max())
        bad, msg = d > e + tol, f"max |values - V*| = {d:.6g} vs eps {e:.6g}"
    return bool(bad), f"{job['name']}: iteration {st.info.iteration}; {msg} (gamma={g}, eps={e})"

"""C02 - one sweep is the exact Bellman optimality backup; the extracted policy is greedy."""
from __future__ import annotations

import itertools
from fractions import Fraction

import jax
import jax.numpy as jnp
import numpy as np
import z3

from .. import kit, pathx, zx
from ..harness import Obligations, jsonable, tofloat, unq
from ..trace import lift, symbolic, sym, val_of

ID = "C02"
LEVEL = "model_checking"
FUNCTIONS = [
    "ValueIteration._update_values", "ValueIteration._calculate_updated_value_scan_state_batches (pmap+scan)",
    "ValueIteration._calculate_updated_value_state_batch", "ValueIteration._calculate_updated_value",
    "ValueIteration._calculate_updated_state_action_value", "ValueIteration._get_value_next_state",
    "ValueIteration._extract_policy (+ _extract_policy_idx_* stack)", "Solver._unbatch_results",
    "BatchProcessor.prepare_batches/unbatch_results",
    "SemiAsyncValueIteration._calculate_updated_state_action_value/_calculate_updated_value (via _extract_policy)",
    "shipped problems' transition/random_event_probability/state_to_index (concrete tables leg)",
]
RULE = ("Jobs enumerate shapes (S,A,E, vector dims, zero-vector offset, probability-as-array, batch size, "
        "devices, solver class); inside a job successor table T (ints in range), rewards R, probabilities P, "
        "values V and gamma are symbolic and each state's output is one obligation.")
ASSUMPTIONS = [
    "floats are modelled as reals (exact arithmetic); int32 as mathematical integers",
    "successor indices T[s,a,e] range over 0..S-1 (every finite MDP of the shape)",
    "monotonicity/shift/contraction obligations use concrete dyadic probabilities (P>=0, sum 1) and concrete gamma so that the query is linear",
    "JAX's own lowering of pmap to jit+shard_map is interpreted per shard in device order",
]
OUTSIDE = "larger S/A/E than listed; floating-point rounding; real multi-GPU execution"
EXPLANATION = ("Real mdpax sweep and policy extraction executed under a z3-valued JAX trace; per state the "
               "resulting term is compared by z3 with an independent Bellman backup over the same symbols.")
JOB_TIMEOUT = {"quick": 600, "thorough": 1800}


def bounds(tier):
    return {"shapes(S,A,E)": [c[:3] for c in _shapes(tier)], "devices": [1, 2] if tier == "quick" else [1, 2, 3, 4, 8],
            "gamma": "symbolic real, unconstrained (covers [0,1])", "V,R,P": "symbolic reals, unconstrained",
            "T": "symbolic ints in [0,S)"}


def _shapes(tier):
    # (S, A, E, ds, da, de, offset, prob_array)
    base = [
        (2, 2, 1, 1, 1, 1, 0, False),
        (3, 2, 2, 1, 1, 1, 0, False),
        (3, 2, 2, 2, 2, 2, 1, True),
        (4, 3, 2, 1, 2, 1, 0, False),
        (3, 3, 3, 2, 1, 2, 0, True),
    ]
    if tier == "thorough":
        base += [
            (4, 3, 3, 2, 2, 2, 1, False),
            (5, 2, 2, 3, 1, 1, 1, False),
            (4, 2, 3, 1, 3, 3, 0, True),
            (1, 2, 2, 1, 1, 1, 0, False),
            (5, 3, 1, 2, 2, 1, 0, False),
        ]
    return base


def jobs(tier, seed):
    out = []
    for (S, A, E, ds, da, de, off, pa) in _shapes(tier):
        bss = sorted({1, 2, S, S + 3}) if tier == "quick" else list(range(1, S + 4))
        devs = [1, 2] if tier == "quick" else [1, 2, 3, 4, 8]
        for dv in devs:
            for bs in (bss if dv == 1 else [1, 2, S + 3]):   # bs=1 on several devices: more than one batch per device
                for solver in (("vi", "savi") if (dv == 1 and bs == bss[-1]) else ("vi",)):
                    cfg = dict(S=S, A=A, E=E, ds=ds, da=da, de=de, offset=off, prob_array=pa, bs=bs)
                    out.append(dict(name=f"sweep-{solver}-S{S}A{A}E{E}-d{ds}{da}{de}-o{off}-pa{int(pa)}-bs{bs}-dev{dv}",
                                    kind="sweep", solver=solver, cfg=cfg, devices=dv, seed=seed, cost=S * A * E * (3 if dv > 1 else 1)))
    for (S, A, E, ds, da, de, off, pa) in _shapes(tier)[:3 if tier == "quick" else 6]:
        cfg = dict(S=S, A=A, E=E, ds=ds, da=da, de=de, offset=off, prob_array=pa, bs=2)
        out.append(dict(name=f"conseq-S{S}A{A}E{E}", kind="conseq", solver="vi", cfg=cfg, devices=1, seed=seed, cost=5))
    # input classes that need something specific: > 256 actions (narrow index dtypes), non-integer state vectors,
    # integer-typed initial value estimates
    out.append(dict(name="special-many-actions", kind="special", variant="many_actions", devices=1, seed=seed, cost=40))
    out.append(dict(name="special-float-states", kind="special", variant="float_states", devices=1, seed=seed, cost=5))
    out.append(dict(name="special-int-initial-values", kind="special", variant="int_v0", devices=1, seed=seed, cost=5))
    # a second sweep on the same solver object with other values and another discount factor
    out.append(dict(name="special-second-call", kind="special", variant="second_call", devices=1, seed=seed, cost=8))
    # the policy returned by solve() is greedy for the values it returns, whether the call converged or hit its limit
    for solver in ("vi", "savi", "rvi", "pvi"):
        for k in ((1, 2) if tier == "quick" else (1, 2, 3)):
            out.append(dict(name=f"solve-returns-greedy-{solver}-k{k}", kind="solve", solver=solver, k=k, devices=1, seed=seed, cost=6 * k))
    for pname in ("forest", "de_moor", "hendrix", "mirjalili"):
        for dv in ([1] if tier == "quick" else [1, 2]):
            out.append(dict(name=f"shipped-{pname}-dev{dv}", kind="shipped", problem=pname, devices=dv, seed=seed, cost=30,
                            bs=4 if tier == "quick" else 3))
    return out


def small_shipped(name):
    from mdpax.problems import Forest
    from mdpax.problems.perishable_inventory.de_moor_single_product import DeMoorSingleProductPerishable
    from mdpax.problems.perishable_inventory.hendrix_two_product import HendrixTwoProductPerishable
    from mdpax.problems.perishable_inventory.mirjalili_platelet import MirjaliliPlateletPerishable
    if name == "forest":
        return Forest(S=4, r1=4.0, r2=2.0, p=0.25)
    if name == "de_moor":
        return DeMoorSingleProductPerishable(max_demand=3, max_useful_life=2, lead_time=2, max_order_quantity=2,
                                             issue_policy="fifo")
    if name == "hendrix":
        return HendrixTwoProductPerishable(max_useful_life=1, max_order_quantity_a=2, max_order_quantity_b=1,
                                           demand_poisson_mean_a=1.0, demand_poisson_mean_b=0.7)
    if name == "mirjalili":
        return MirjaliliPlateletPerishable(max_demand=2, max_useful_life=2, max_order_quantity=1,
                                           useful_life_at_arrival_distribution_c_0=(0.5,),
                                           useful_life_at_arrival_distribution_c_1=(0.1,))
    raise KeyError(name)


def concrete_tables(pb):
    """T index, R, P tables of any Problem computed with plain JAX (reference side)."""
    S, A, E = pb.n_states, pb.n_actions, pb.n_random_events
    st, ac, ev = pb.state_space, pb.action_space, pb.random_event_space
    f = jax.vmap(jax.vmap(jax.vmap(pb.transition, in_axes=(None, None, 0)), in_axes=(None, 0, None)), in_axes=(0, None, None))
    ns, R = f(st, ac, ev)
    T = jax.vmap(jax.vmap(jax.vmap(pb.state_to_index)))(ns)
    g = jax.vmap(jax.vmap(jax.vmap(pb.random_event_probability, in_axes=(None, None, 0)), in_axes=(None, 0, None)), in_axes=(0, None, None))
    P = g(st, ac, ev).reshape(S, A, E)
    return np.asarray(T).reshape(S, A, E), np.asarray(R).reshape(S, A, E), np.asarray(P)


class ConcreteL:
    def __init__(self, T, R, P):
        self.S, self.A, self.E = T.shape
        self.T, self.R, self.P = zx.to_obj(T), zx.to_obj(R), zx.to_obj(P)
        for idx in np.ndindex(self.R.shape):     # rewards / probabilities as rationals whatever dtype the problem used
            self.R[idx], self.P[idx] = zx.to_real(self.R[idx]), zx.to_real(self.P[idx])


def sweep_obligations(ob, L, new, pol, V, gamma, pre, action_space, cex_extra, rounding_tol=None):
    """rounding_tol: for legs whose reference tables are float-rounded (special functions evaluated by JAX) equality is
    relaxed to |lhs - rhs| <= tol * (1 + sum |V|) under 0 <= gamma <= 1, far below any real discrepancy."""
    S = L.S
    if rounding_tol is not None:
        pre = list(pre) + [zx.Z(gamma) >= 0, zx.Z(gamma) <= 1]
        slack = z3.RealVal(str(rounding_tol)) * (1 + sum(z3.If(zx.Z(v) >= 0, zx.Z(v), -zx.Z(v)) for v in V))

        def close(a, b):
            d = zx.Z(zx.to_real(a)) - zx.Z(zx.to_real(b))
            return z3.And(d <= slack, -d <= slack)
    else:
        close = zx.eq
    ob.prove("shape", [], new.shape == (S,) and pol.shape == (S, action_space.shape[1]))
    B = kit.bellman(L, V, gamma)
    Q = kit.q_values(L, V, gamma)

    def cexf(i, what):
        def f(m):
            d = dict(cex_extra)
            d.update(kind=what, state=i,
                     T=kit.model_array(m, L.T), R=kit.model_array(m, L.R), P=kit.model_array(m, L.P),
                     V=kit.model_array(m, V), gamma=zx.model_value(m, gamma))
            return d
        return f
    scaled = list(np.asarray(L.R, dtype=object).flat) + list(V)
    unit = list(np.asarray(L.P, dtype=object).flat) + [gamma]
    for i in range(S):
        ob.prove(f"sweep==bellman[{i}]", pre, close(new[i], B[i]), cex=cexf(i, "sweep"), margin=(new[i], B[i], scaled, unit), direct=rounding_tol is not None)
        member, idx = kit.policy_row_index(list(pol[i]), np.asarray(action_space))
        ob.prove(f"policy_in_action_space[{i}]", pre, member, cex=cexf(i, "policy_member"))
        qsel = kit.lookup(Q[i], idx)
        ob.prove(f"policy_greedy[{i}]", pre, close(qsel, B[i]), cex=cexf(i, "policy_greedy"), margin=(qsel, B[i], scaled, unit), direct=rounding_tol is not None)


def differential(ob, solver, pb, new_terms, pol_terms, pairs, Vc, gc):
    """E7b: the symbolic terms with the concrete inputs substituted must equal what real JAX computes."""
    real_new = np.asarray(solver._update_values(solver.batched_states, pb.action_space, pb.random_event_space,
                                                jnp.asarray(gc), jnp.asarray(Vc)))
    solver.values, solver.gamma = jnp.asarray(Vc), jnp.asarray(gc)
    real_pol = np.asarray(solver._extract_policy())
    bad = 0
    for i in range(len(Vc)):
        v = kit.substitute_eval(new_terms[i], pairs)
        if abs(float(v) - float(real_new[i])) > 1e-9 * max(1.0, abs(float(real_new[i]))):
            bad += 1
        for k in range(real_pol.shape[1]):
            if int(kit.substitute_eval(pol_terms[i, k], pairs)) != int(real_pol[i, k]):
                bad += 1
    ob.extra["differential_runs"] = ob.extra.get("differential_runs", 0) + 1
    if bad:
        ob.fail_harness(f"symbolic encoding disagrees with real JAX on {bad} outputs (rule bug)")


def run_job(job):
    ob = Obligations(job)
    seed = job.get("seed", 0)
    if job["kind"] == "shipped":
        return _run_shipped(job, ob)
    if job["kind"] == "special":
        return _run_special(job, ob)
    if job["kind"] == "solve":
        return _run_solve(job, ob)
    cfg = job["cfg"]
    S, A, E = cfg["S"], cfg["A"], cfg["E"]
    pb = kit.make_tab(cfg, seed)
    solver = kit.make_solver(job["solver"], pb, max_batch_size=cfg["bs"])
    conc = {k: np.asarray(getattr(pb, k)) for k in ("T", "R", "P")}
    rng = np.random.default_rng(seed + 7)
    Vc, gc = np.round(rng.normal(size=S) * 3, 3), 0.875
    ob.extra["batch_shape"] = [list(solver.batch_processor.batch_shape) + [solver.n_pad]]
    if job["kind"] == "conseq":
        return _run_conseq(job, ob, pb, solver, conc)

    ex = pathx.Explorer()

    def run():
        with symbolic():
            L = kit.Lifted(pb)
            pathx.CUR.assume(z3.And(*L.pre))
            solver.values = sym("V", (S,))
            solver.gamma = sym("gamma")
            new = solver._update_values(solver.batched_states, pb.action_space, pb.random_event_space,
                                        solver.gamma, solver.values)
            pol = solver._extract_policy()
            return L, val_of(new), val_of(pol), val_of(solver.values), val_of(solver.gamma)[()]
    outs = list(ex.explore(run))
    ob.extra["paths"] = len(outs)
    for o in outs:
        if o.exc is not None:
            from ..harness import exc_origin
            if exc_origin(o.exc) == "harness":
                ob.fail_harness(f"harness raised: {o.exc!r}")
                continue
            ob.fail_harness(f"real code raised under symbolic execution: {o.exc!r}")
            continue
        L, new, pol, V, gamma = o.value
        pre = o.pc
        ob.reach("sweep-path", pre)
        sweep_obligations(ob, L, new, pol, V, gamma, pre, np.asarray(pb.action_space),
                          dict(cfg=cfg, solver=job["solver"], devices=job["devices"]))
        pairs = (L.T_pairs(conc["T"]) + kit.assignment_pairs(L.R, conc["R"]) +
                 kit.assignment_pairs(L.P, conc["P"]) + kit.assignment_pairs(V, Vc) + [(gamma, zx.from_np_scalar(gc))])
        for k in ("T", "R", "P"):
            setattr(pb, k, jnp.asarray(conc[k]))
        differential(ob, solver, pb, new, pol, pairs, Vc, gc)
    return ob.result()


def _run_conseq(job, ob, pb, solver, conc):
    cfg = job["cfg"]
    S = cfg["S"]
    gq = zx.Fraction(7, 8)
    ex = pathx.Explorer()

    def run():
        with symbolic():
            L = kit.Lifted(pb, lift_P=False)
            pathx.CUR.assume(z3.And(*L.pre))
            solver.values = sym("V", (S,))
            solver.gamma = jnp.asarray(float(gq))
            new = solver._update_values(solver.batched_states, pb.action_space, pb.random_event_space,
                                        solver.gamma, solver.values)
            return L, val_of(new), val_of(solver.values)
    for o in ex.explore(run):
        L, new, V = o.value
        pre = o.pc
        W = [z3.Real(f"W_{i}") for i in range(S)]
        c, d = z3.Real("c"), z3.Real("d")
        subW = [(V[i], W[i]) for i in range(S)]
        subC = [(V[i], V[i] + c) for i in range(S)]
        ob.reach("conseq-path", pre)
        for i in range(S):
            nW = z3.substitute(zx.Z(new[i]), *subW)
            nC = z3.substitute(zx.Z(new[i]), *subC)
            ob.prove(f"monotone[{i}]", pre + [V[k] <= W[k] for k in range(S)], zx.Z(new[i]) <= nW)
            ob.prove(f"shift[{i}]", pre, nC == zx.Z(new[i]) + zx.Z(gq) * c)
            ob.prove(f"contraction[{i}]", pre + [d >= 0] + [z3.And(V[k] - W[k] <= d, W[k] - V[k] <= d) for k in range(S)],
                     z3.And(zx.Z(new[i]) - nW <= zx.Z(gq) * d, nW - zx.Z(new[i]) <= zx.Z(gq) * d))
    return ob.result()


SOLVE_CFG = dict(S=3, A=2, E=2, bs=2)


def solve_problem(seed, R=None, V0=None):
    from ..tab import Tab
    S, A, E = SOLVE_CFG["S"], SOLVE_CFG["A"], SOLVE_CFG["E"]
    T, R0, P, V00 = kit.rand_tables(S, A, E, seed + 3)
    return Tab(S, A, E, T=T, R=R0 if R is None else R, P=P, V0=V00 if V0 is None else V0)


def _run_solve(job, ob):
    """real solve(k) (real sweeps, real stopping rule, real extraction) with symbolic rewards, initial values and epsilon;
    concrete probabilities and discount factor keep every branch condition linear"""
    from .C08 import shadowed
    name, k = job["solver"], job["k"]
    S, A, E = SOLVE_CFG["S"], SOLVE_CFG["A"], SOLVE_CFG["E"]
    gq = Fraction(1) if name == "rvi" else Fraction(1, 2)
    eps = z3.Real("eps")
    ex = pathx.Explorer(max_paths=200)
    h = {}

    def run():
        pb = solve_problem(job.get("seed", 0))
        with symbolic():
            pb.R = sym("R", (S, A, E))
            pb.V0 = sym("V0", (S,))
            kw = dict(max_batch_size=SOLVE_CFG["bs"])
            if name == "pvi":
                kw.update(period=2)
            if name != "rvi":
                kw["gamma"] = float(gq)
            solver = kit.make_solver(name, pb, **kw)
            pathx.CUR.assume(eps > 0)
            solver.epsilon = lift(eps)
            solver._setup_convergence_testing()
            st = solver.solve(k)
            h["pb"] = pb
            return dict(vals=val_of(st.values), pol=val_of(st.policy), it=st.info.iteration, R=val_of(pb.R), V0=val_of(pb.V0))
    outs = []
    with shadowed():
        try:
            for o in ex.explore(run):
                outs.append(o)
        except zx.Unsupported as e:
            ob.inconclusive.append({"obligation": "path-exploration", "reason": str(e), "solver_s": 0})
    pb0 = solve_problem(job.get("seed", 0))
    Tidx = np.asarray(jax.vmap(jax.vmap(jax.vmap(pb0.state_to_index)))(pb0.T)).reshape(S, A, E)
    asp = np.asarray(pb0.action_space)
    for pi_, o in enumerate(outs):
        if o.exc is not None:
            from ..harness import exc_origin
            if exc_origin(o.exc) == "harness":
                ob.fail_harness(f"harness raised: {o.exc!r}")
                continue
            ob.prove(f"no-exception[path{pi_}]", o.pc, False, cex=lambda m, o=o: dict(kind="solve_exc", exc=repr(o.exc)))
            continue
        r = o.value
        L = ConcreteL(Tidx, np.zeros((S, A, E)), np.asarray(pb0.P))
        L.R = r["R"]
        ob.reach(f"path{pi_}", o.pc)
        Q = kit.q_values(L, [zx.to_real(v) for v in r["vals"]], gq)
        B = [kit.zmax_list(row) for row in Q]
        cex = lambda m, r=r: dict(kind="solve", solver=name, k=k, R=kit.model_array(m, r["R"]), V0=kit.model_array(m, r["V0"]), eps=zx.model_value(m, eps))
        for i in range(S):
            member, idx = kit.policy_row_index(list(r["pol"][i]), asp)
            ob.prove(f"returned-policy-greedy[path{pi_},{i}]", o.pc, zx.land(member, zx.eq(kit.lookup(Q[i], idx), B[i])), cex=cex,
                     margin=(kit.lookup(Q[i], idx), B[i], list(np.asarray(r["R"], dtype=object).flat) + list(r["V0"]), []),
                     kind="policy returned by solve() is greedy for the values it returns")
    ob.extra["paths"] = len(outs)
    return ob.result()


def special_problem(variant, seed):
    from ..tab import Tab
    if variant == "many_actions":
        S, A, E = 2, 300, 1
        T, R, P, V0 = kit.rand_tables(S, A, E, seed)
        return Tab(S, A, E, T=T, R=R, P=P), dict(S=S, A=A, E=E, bs=2)
    if variant == "second_call":
        S, A, E = 3, 2, 2
        T, R, P, V0 = kit.rand_tables(S, A, E, seed)
        return Tab(S, A, E, T=T, R=R, P=P), dict(S=S, A=A, E=E, bs=2)
    if variant == "float_states":
        S, A, E = 5, 2, 2
        T, R, P, V0 = kit.rand_tables(S, A, E, seed)
        return Tab(S, A, E, T=T, R=R, P=P, scale=0.5), dict(S=S, A=A, E=E, bs=2)
    S, A, E = 4, 2, 2
    T, R, P, V0 = kit.rand_tables(S, A, E, seed)
    return Tab(S, A, E, T=T, R=R, P=P, V0=np.array([0, 3, -2, 7]), v0_int=True), dict(S=S, A=A, E=E, bs=3)


def _run_special(job, ob):
    """concrete successor table, symbolic rewards/values (gamma = 7/8): classes of problems the random Tab shapes do not reach"""
    variant = job["variant"]
    pb, cfg = special_problem(variant, job.get("seed", 0))
    S, A, E = cfg["S"], cfg["A"], cfg["E"]
    solver = kit.make_solver("vi", pb, max_batch_size=cfg["bs"])
    Tidx = np.asarray(jax.vmap(jax.vmap(jax.vmap(pb.state_to_index)))(pb.T)).reshape(S, A, E)
    Pc = np.asarray(pb.P)
    v0c = np.asarray(solver.values)
    gq = zx.Fraction(1, 2) if variant == "second_call" else zx.Fraction(7, 8)
    ex = pathx.Explorer()

    def run():
        with symbolic():
            pb.R = sym("R", (S, A, E))
            if variant == "second_call":
                solver.values = sym("Vfirst", (S,))
                solver.gamma = jnp.asarray(0.875)
                solver._update_values(solver.batched_states, pb.action_space, pb.random_event_space, solver.gamma, solver.values)
                solver._extract_policy()
            if variant != "int_v0":
                solver.values = sym("V", (S,))
            solver.gamma = jnp.asarray(float(gq))
            new = solver._update_values(solver.batched_states, pb.action_space, pb.random_event_space, solver.gamma, solver.values)
            solver_values_before = val_of(solver.values)
            pol = solver._extract_policy()
            return val_of(new), val_of(pol), solver_values_before, val_of(pb.R), str(getattr(new, "dtype", ""))
    for o in ex.explore(run):
        if o.exc is not None:
            from ..harness import exc_origin
            if exc_origin(o.exc) == "harness":
                ob.fail_harness(f"harness raised: {o.exc!r}")
                continue
            ob.prove("no-exception", o.pc, False, cex=lambda m: dict(kind="special_exc", variant=variant, exc=repr(o.exc)))
            continue
        new, pol, V, Rsym, dt = o.value
        L = ConcreteL(Tidx, np.zeros((S, A, E)), Pc)
        L.R = Rsym
        ob.reach("path", o.pc)
        Q = kit.q_values(L, [zx.to_real(v) for v in V], gq)
        B = [kit.zmax_list(row) for row in Q]
        asp = np.asarray(pb.action_space)
        cex = lambda m: dict(kind="special", variant=variant, R=kit.model_array(m, Rsym), V=kit.model_array(m, V))
        for i in range(S):
            ob.prove(f"sweep==bellman[{i}]", o.pc, zx.eq(new[i], B[i]) if new.shape == (S,) else False, cex=cex, kind="sweep == Bellman backup (special input classes)")
            member, idx = kit.policy_row_index(list(pol[i]), asp)
            ob.prove(f"policy_greedy[{i}]", o.pc, zx.land(member, zx.eq(kit.lookup(Q[i], idx), B[i])), cex=cex, kind="policy greedy (special input classes)")
    return ob.result()


def _run_shipped(job, ob):
    pb = small_shipped(job["problem"])
    S = pb.n_states
    T, R, P = concrete_tables(pb)
    from mdpax.solvers import ValueIteration
    solver = ValueIteration(pb, gamma=0.9, epsilon=0.01, max_batch_size=job.get("bs", 4), verbose=0)
    ob.extra["batch_shape"] = [list(solver.batch_processor.batch_shape) + [solver.n_pad]]
    rng = np.random.default_rng(job.get("seed", 0) + 3)
    Vc, gc = np.round(rng.normal(size=S) * 3, 3), 0.875
    ex = pathx.Explorer()
    h = {}
    exact = job["problem"] in ("forest", "de_moor")

    def run():
        # exact mode (Forest, De Moor: probabilities are table look-ups): the problem's concrete float tables are combined
        # on rationals, as the reference does, so an algebraically equal rewrite of the kernel stays provable.  Hendrix and
        # Mirjalili evaluate special functions inside random_event_probability; they run in float mode, where a rewrite that
        # moves concrete float sub-expressions may differ by rounding from the reference -> reported UNCONFIRMED (exit 2),
        # never as a violation
        with symbolic(exact=exact):
            solver.values = sym("V", (S,))
            solver.gamma = sym("gamma")
            new = solver._update_values(solver.batched_states, pb.action_space, pb.random_event_space,
                                        solver.gamma, solver.values)
            pol = solver._extract_policy()
            # reference tables computed by the problem's own functions under the same exact arithmetic
            st, ac, ev = pb.state_space, pb.action_space, pb.random_event_space
            f = jax.vmap(jax.vmap(jax.vmap(pb.transition, in_axes=(None, None, 0)), in_axes=(None, 0, None)), in_axes=(0, None, None))
            ns, Rx = f(st, ac, ev)
            Tx = jax.vmap(jax.vmap(jax.vmap(pb.state_to_index)))(ns)
            g = jax.vmap(jax.vmap(jax.vmap(pb.random_event_probability, in_axes=(None, None, 0)), in_axes=(None, 0, None)), in_axes=(0, None, None))
            Px = g(st, ac, ev)
            shp = (pb.n_states, pb.n_actions, pb.n_random_events)
            h["tables"] = (val_of(Tx).reshape(shp), val_of(Rx).reshape(shp), val_of(Px).reshape(shp))
            return val_of(new), val_of(pol), val_of(solver.values), val_of(solver.gamma)[()]
    for o in ex.explore(run):
        if o.exc is not None:
            from ..harness import exc_origin
            if exc_origin(o.exc) == "harness":
                ob.fail_harness(f"harness raised: {o.exc!r}")
                continue
            ob.fail_harness(f"real code raised under symbolic execution: {o.exc!r}")
            continue
        new, pol, V, gamma = o.value
        L = ConcreteL(*h["tables"]) if exact else ConcreteL(T, R, P)
        ob.reach("shipped-path", o.pc)
        sweep_obligations(ob, L, new, pol, V, gamma, o.pc, np.asarray(pb.action_space),
                          dict(problem=job["problem"], devices=job["devices"], bs=job.get("bs", 4)),
                          rounding_tol=None if exact else 1e-9)
        pairs = kit.assignment_pairs(V, Vc) + [(gamma, zx.from_np_scalar(gc))]
        differential(ob, solver, pb, new, pol, pairs, Vc, gc)
    return ob.result()


def finding_key(v):
    c = v.get("cex") or {}
    return f"{v['obligation'].split('[')[0]}"


def replay(data):
    """Run the real sweep / policy extraction on the concrete counterexample and compare with an
    independent numpy Bellman backup."""
    c = unq(data["cex"])
    job = data["job"]
    if "error" in c:
        return False, c["error"]
    if c.get("kind") in ("solve", "solve_exc"):
        S, A, E = SOLVE_CFG["S"], SOLVE_CFG["A"], SOLVE_CFG["E"]
        name, k = job["solver"], job["k"]
        if c["kind"] == "solve_exc":
            R, V0, e = None, None, 1e-3
        else:
            R, V0, e = np.array(tofloat(c["R"]), dtype=float), np.array(tofloat(c["V0"]), dtype=float), float(c["eps"])
        pb = solve_problem(job.get("seed", 0), R=R, V0=V0)
        kw = dict(max_batch_size=SOLVE_CFG["bs"], epsilon=e)
        if name == "pvi":
            kw.update(period=2)
        if name != "rvi":
            kw["gamma"] = 0.5
        s = kit.make_solver(name, pb, **kw)
        try:
            st = s.solve(k)
        except Exception as ex:
            return True, f"solve({k}) raised {type(ex).__name__}: {ex}"
        if c["kind"] == "solve_exc":
            return False, "no exception"
        g_ = 1.0 if name == "rvi" else 0.5
        Tidx = np.asarray(jax.vmap(jax.vmap(jax.vmap(pb.state_to_index)))(pb.T)).reshape(S, A, E)
        Vr = np.asarray(st.values, dtype=float)
        Rr, P = np.asarray(pb.R, dtype=float), np.asarray(pb.P, dtype=float)
        Q = (P * (Rr + g_ * Vr[Tidx])).sum(-1)
        asp = np.asarray(pb.action_space)
        pol = np.asarray(st.policy)
        rows = [int(np.where((asp == pol[j]).all(1))[0][0]) for j in range(S)]
        tol = kit.REPLAY_RTOL * 100 * max(np.abs(Rr).max(), np.abs(Vr).max(), 1e-300)
        bad = any(Q[j].max() - Q[j, rows[j]] > tol for j in range(S))
        return bool(bad), f"{name} solve({k}) stopped at iteration {st.info.iteration}: returned policy rows {rows}, Q(returned values) {Q.tolist()}"
    if c.get("kind") in ("special", "special_exc"):
        pb, cfg = special_problem(c["variant"], job.get("seed", 0))
        S, A, E = cfg["S"], cfg["A"], cfg["E"]
        solver = kit.make_solver("vi", pb, max_batch_size=cfg["bs"], gamma=0.875)
        g_ = 0.875
        if c["variant"] == "second_call":
            solver.values = jnp.asarray(np.arange(S, dtype=float))
            solver._update_values(solver.batched_states, pb.action_space, pb.random_event_space, solver.gamma, solver.values)
            solver._extract_policy()
            g_ = 0.5
            solver.gamma = jnp.asarray(0.5)
        if c.get("kind") == "special_exc":
            try:
                solver.solve(1)
                return False, "no exception"
            except Exception as ex:
                return True, f"{type(ex).__name__}: {ex}"
        R = np.array(tofloat(c["R"]), dtype=float)
        pb.R = jnp.asarray(R)
        V = np.array(tofloat(c["V"]), dtype=float) if c["variant"] != "int_v0" else np.asarray(solver.values, dtype=float)
        if c["variant"] != "int_v0":
            solver.values = jnp.asarray(V)
        Tidx = np.asarray(jax.vmap(jax.vmap(jax.vmap(pb.state_to_index)))(pb.T)).reshape(S, A, E)
        P = np.asarray(pb.P)
        Q = (P * (R + g_ * V[Tidx])).sum(-1)
        B = Q.max(-1)
        new = np.asarray(solver._update_values(solver.batched_states, pb.action_space, pb.random_event_space, solver.gamma, solver.values))
        pol = np.asarray(solver._extract_policy())
        asp = np.asarray(pb.action_space)
        rows = [int(np.where((asp == pol[j]).all(1))[0][0]) for j in range(S)]
        tol = kit.REPLAY_RTOL * max(np.abs(R).max(), np.abs(V).max(), 1e-300)
        bad = (not np.issubdtype(new.dtype, np.floating)) or np.abs(new - B).max() > tol or any(abs(Q[j, rows[j]] - B[j]) > tol for j in range(S))
        return bool(bad), f"{c['variant']}: sweep {new[:4]} (dtype {new.dtype}) vs Bellman {B[:4]}; policy rows {rows[:4]} vs argmax {Q.argmax(-1)[:4].tolist()}"
    T = np.array(c["T"], dtype=np.int64)
    R = np.array(tofloat(c["R"]), dtype=float)
    P = np.array(tofloat(c["P"]), dtype=float)
    V = np.array(tofloat(c["V"]), dtype=float)
    g = float(c["gamma"])
    if "cfg" in c:
        cfg = c["cfg"]
        from ..tab import Tab
        pb = Tab(cfg["S"], cfg["A"], cfg["E"], ds=cfg["ds"], da=cfg["da"], de=cfg["de"], offset=cfg["offset"],
                 prob_array=cfg["prob_array"], T=T, R=R, P=P)
        solver = kit.make_solver(c["solver"], pb, max_batch_size=cfg["bs"])
    else:
        pb = small_shipped(c["problem"])
        solver = kit.make_solver("vi", pb, max_batch_size=c.get("bs", 4))
    Q = (P * (R + g * V[T])).sum(-1)
    B = Q.max(-1)
    new = np.asarray(solver._update_values(solver.batched_states, pb.action_space, pb.random_event_space,
                                           jnp.asarray(g), jnp.asarray(V)))
    solver.values, solver.gamma = jnp.asarray(V), jnp.asarray(g)
    pol = np.asarray(solver._extract_policy())
    tol = kit.REPLAY_RTOL * max(np.abs(R).max(), np.abs(V).max(), 1e-300)   # relative to the magnitude of the inputs (the property is scale-free)
    i = c["state"]
    if c["kind"] == "sweep":
        bad = new.shape != B.shape or abs(new[i] - B[i]) > tol
        return bool(bad), f"state {i}: sweep {new[i] if new.shape == B.shape else new.shape} vs Bellman {B[i]}"
    aspace = np.asarray(pb.action_space)
    rows = [k for k in range(len(aspace)) if np.array_equal(aspace[k], pol[i])]
    if c["kind"] == "policy_member":
        return (not rows), f"state {i}: policy row {pol[i]} in action space: {bool(rows)}"
    if not rows:
        return True, f"state {i}: policy row {pol[i]} not in action space"
    return bool(abs(Q[i, rows[0]] - B[i]) > tol), f"state {i}: Q(policy)={Q[i, rows[0]]} vs max {B[i]}"

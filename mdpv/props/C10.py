"""C10 - restore()/load_checkpoint() reproduce the saved solver exactly and completely."""
from __future__ import annotations

import itertools
import json
import os
import shutil
import tempfile

import jax
import jax.numpy as jnp
import numpy as np
import z3

from .. import ckkit, kit, pathx, zx
from ..harness import Obligations, unq
from ..stubs import orbax_model as om
from ..stubs.common import MutRows
from ..trace import SymTracer, lift, sym, symbolic, val_of
from .C08 import shadowed

ID = "C10"
LEVEL = "model_checking"
FUNCTIONS = ["CheckpointMixin.restore", "CheckpointMixin.load_checkpoint", "CheckpointMixin.save", "CheckpointMixin._create_checkpoint_manager",
             "CheckpointMixin._setup_checkpointing/_save_solver_config/has_full_config", "<all five>.solver_state", "<all five>._restore_state_from_checkpoint",
             "Solver._setup_config (config captured at construction)"]
RULE = ("(1) state completeness: every runtime field of each solver is filled with fresh symbols, saved and restored through both routes; each "
        "documented field must come back as the identical term; (2) step selection: for every save history (steps <= 4, length <= 3) the "
        "default restore returns the largest committed step, an explicit step returns that step; (3) overrides: restored state unchanged, later "
        "saves go to the new directory with the new frequency/retention, the original directory's store is unchanged; (4) error paths on the "
        "real filesystem; (5) real-library leg: concrete solve/save/restore with the real Orbax for all five solvers, bitwise comparison.")
ASSUMPTIONS = [
    "Orbax replaced by the contract model for (1)-(3) (validated against the real library in C12's 'model' job); (4),(5) use the real Orbax on disk",
    "configuration equality after the YAML round trip is checked concretely (5 solvers x Forest/De Moor/Hendrix/Mirjalili default-size-reduced "
    "parameterisations incl. tuple-valued parameters): this part is concrete evaluation, not an SMT claim",
    "semi-async: the PRNG key is mutated and read but not part of the saved state; C09 permits this (shuffled resume need only stay within the bound); reported as information",
]
OUTSIDE = "parameter ranges beyond the enumerated configurations; Orbax internals"
EXPLANATION = "real save/restore/load under the z3-valued trace with the Orbax contract model + concrete real-Orbax leg"
JOB_TIMEOUT = {"quick": 2400, "thorough": 7200}


def bounds(tier):
    return {"solvers": ["vi", "pi", "rvi", "pvi", "savi"], "routes": ["restore", "load_checkpoint"], "save histories": "steps in 1..4, length <= 3",
            "overrides": "new dir / frequency / retention / async, all subsets", "real leg": "5 solvers x 4 shipped problems (small parameterisations)"}


def jobs(tier, seed):
    out = []
    for solver in ("vi", "pi", "rvi", "pvi", "savi"):
        for route in ("restore", "load"):
            out.append(dict(name=f"complete-{solver}-{route}", kind="complete", solver=solver, route=route, devices=1, seed=seed, cost=2))
        out.append(dict(name=f"steps-{solver}", kind="steps", solver=solver, maxlen=3 if tier == "quick" else 4, devices=1, seed=seed, cost=10 if tier == "quick" else 40))
        out.append(dict(name=f"overrides-{solver}", kind="overrides", solver=solver, devices=1, seed=seed, cost=10))
        out.append(dict(name=f"errors-{solver}", kind="errors", solver=solver, devices=1, seed=seed, cost=3))
        out.append(dict(name=f"reuse-{solver}", kind="reuse", solver=solver, devices=1, seed=seed, cost=40))
        for problem in ("forest", "de_moor", "hendrix", "mirjalili"):
            out.append(dict(name=f"real-{solver}-{problem}", kind="real", solver=solver, problem=problem, devices=1, seed=seed, cost=60))
        # single precision requested: in a process where 64-bit mode is on anyway, and in fresh processes where it is off
        out.append(dict(name=f"real-{solver}-forest-single-in-x64-process", kind="real", solver=solver, problem="forest", single=True, devices=1, seed=seed, cost=60))
        out.append(dict(name=f"fresh-single-{solver}", kind="fresh", solver=solver, devices=1, seed=seed, cost=60))
    return out


FIELDS = {"vi": ["values", "policy", "iteration"], "savi": ["values", "policy", "iteration"], "pi": ["values", "policy", "iteration"],
          "rvi": ["values", "policy", "iteration", "gain"], "pvi": ["values", "policy", "iteration", "value_history", "history_index", "period"]}


def fill_symbolic(s, name, tag):
    """every runtime field := fresh symbols"""
    n = ckkit.NS
    s.values = sym(f"{tag}V", (n,))
    s.policy = sym(f"{tag}P", (n, 1), "int")
    s.iteration = 7
    if name == "rvi":
        s.gain = sym(f"{tag}G")
    if name == "pvi":
        s.value_history = MutRows((s.period + 1, n), [sym(f"{tag}H{r}", (n,)) for r in range(s.period + 1)])
        s.history_index = 2


def run_job(job):
    ob = Obligations(job)
    return {"complete": run_complete, "steps": run_steps, "overrides": run_overrides, "errors": run_errors, "real": run_real, "reuse": run_reuse, "fresh": run_fresh}[job["kind"]](job, ob)


def _explore(fn):
    dirs = ckkit.TempDirs()
    ex = pathx.Explorer(max_paths=100)

    def run():
        with symbolic():
            with om.installed():
                return fn(dirs)
    try:
        with shadowed():
            return list(ex.explore(run))
    finally:
        dirs.cleanup()


def run_complete(job, ob):
    name, route = job["solver"], job["route"]
    kind = "forest" if route == "restore" else "tab"

    def fn(dirs):
        d = dirs.new()
        s = ckkit.make_solver(name, ckkit.make_problem(kind), ckdir=d, f=1, m=2, async_=True)
        fill_symbolic(s, name, "a")
        before = ckkit.state_of(s)
        s.save(7)
        s.checkpoint_manager.wait_until_finished()
        if route == "restore":
            t = type(s).restore(d)
        else:
            t = ckkit.make_solver(name, ckkit.make_problem(kind), ckdir=dirs.new(), f=1, m=2)
            t.load_checkpoint(d)
        return before, ckkit.state_of(t), mutated_and_read(name, kind)
    for o in _explore(fn):
        if o.exc is not None:
            from ..harness import exc_origin
            if exc_origin(o.exc) == "harness":
                ob.fail_harness(f"harness raised: {o.exc!r}")
                continue
            ob.prove("no-exception", o.pc, False, cex=lambda m, o=o: dict(kind="exc", exc=repr(o.exc)))
            continue
        a, b, mr = o.value
        ob.reach("path", o.pc)
        for field, eq in ckkit.eq_state(a, b):
            ob.prove(f"restored-{field.split('[')[0]}[{field}]", o.pc, eq, kind=f"restored {field.split('[')[0]} identical to the saved one",
                     cex=lambda m, field=field: dict(kind="complete", field=field, solver=name, route=route))
        ob.extra["mutated_and_read_not_restored"] = mr
    return ob.result()


def mutated_and_read(name, kind):
    """attributes written during one iteration and read again, that are not in the restored field list (information)."""
    class Spy:
        pass
    s = ckkit.make_solver(name, ckkit.make_problem(kind), **({"shuffle_states": True} if name == "savi" else {}))
    cls = type(s)
    writes, reads = set(), set()
    orig_set, orig_get = cls.__setattr__, cls.__getattribute__

    def sset(self, k, v):
        writes.add(k)
        return orig_set(self, k, v)

    def sget(self, k):
        reads.add(k)
        return orig_get(self, k)
    ab = ckkit.Abstraction()
    ab.attach(s, name, "spy")
    if name == "savi":
        # keep the real sweep driver's key handling observable
        del s.__dict__["_update_values"]
        jax.clear_caches()
    try:
        cls.__setattr__, cls.__getattribute__ = sset, sget
        try:
            s.solve(1)
        except Exception:
            pass
    finally:
        cls.__setattr__, cls.__getattribute__ = orig_set, orig_get
    restored = set(FIELDS[name]) | {"policy"}
    return sorted(k for k in writes & reads if k not in restored and not k.startswith("_"))


def run_steps(job, ob):
    name = job["solver"]
    hist = [h for L in range(1, job.get("maxlen", 3) + 1) for h in itertools.product(range(1, 5), repeat=L)]

    def fn(dirs):
        res = []
        for h in hist:
            d = dirs.new()
            s = ckkit.make_solver(name, ckkit.make_problem("forest"), ckdir=d, f=1, m=2, async_=True)
            for j, step in enumerate(h):
                fill_symbolic(s, name, f"s{j}_")
                s.iteration = step
                s.save(step)
            s.checkpoint_manager.wait_until_finished()
            committed = sorted(om.Store.dirs[str(os.path.abspath(d))]["committed"]) if str(os.path.abspath(d)) in om.Store.dirs else sorted(om.Store.dirs[d]["committed"])
            t = type(s).restore(d)
            got_default = (t.iteration, list(val_of(t.values)))
            store = om.Store.dirs[[k for k in om.Store.dirs if k.endswith(os.path.basename(d))][0]]["committed"]
            explicit = {}
            for step in committed:
                u = type(s).restore(d, step=step)
                explicit[step] = (u.iteration, list(val_of(u.values)), list(val_of(store[step].values)))
            res.append(dict(h=h, committed=committed, default=got_default, default_want=list(val_of(store[max(committed)].values)), explicit=explicit))
        # restore, save more, restore again (the second restore must see the later saves), and load_checkpoint likewise
        inter = []
        for a, b in ((1, 2), (1, 3), (2, 4)):
            d = dirs.new()
            s = ckkit.make_solver(name, ckkit.make_problem("forest"), ckdir=d, f=1, m=3, async_=True)
            v = ckkit.make_solver(name, ckkit.make_problem("forest"))
            seen = []
            for j, step in enumerate((a, b)):
                fill_symbolic(s, name, f"i{j}_")
                s.iteration = step
                want = list(val_of(s.values))
                s.save(step)
                s.checkpoint_manager.wait_until_finished()
                t = type(s).restore(d)
                v.load_checkpoint(d)
                seen.append((step, t.iteration, list(val_of(t.values)), v.iteration, list(val_of(v.values)), want))
            inter.append(dict(h=(a, b), seen=seen))
        res.append(dict(inter=inter))
        return res
    for o in _explore(fn):
        if o.exc is not None:
            from ..harness import exc_origin
            if exc_origin(o.exc) == "harness":
                ob.fail_harness(f"harness raised: {o.exc!r}")
                continue
            ob.prove("no-exception", o.pc, False, cex=lambda m, o=o: dict(kind="exc", exc=repr(o.exc)))
            continue
        for r in o.value:
            if "inter" in r:
                for it_ in r["inter"]:
                    for step, ti, tv, vi, vv, want in it_["seen"]:
                        cex = lambda m, it_=it_: dict(kind="steps", history=list(it_["h"]), interleaved=True)
                        ob.prove(f"interleaved-restore{list(it_['h'])}@{step}", o.pc, zx.land(ti == step, _all_eq(tv, want)), cex=cex,
                                 kind="restore() after further saves returns the latest completed step")
                        ob.prove(f"interleaved-load{list(it_['h'])}@{step}", o.pc, zx.land(vi == step, _all_eq(vv, want)), cex=cex,
                                 kind="load_checkpoint() after further saves returns the latest completed step")
                continue
            cex = lambda m, r=r: dict(kind="steps", history=list(r["h"]), committed=r["committed"], default_iteration=r["default"][0])
            ob.prove(f"default==latest{list(r['h'])}", o.pc, zx.land(r["default"][0] == max(r["committed"]),
                                                                     _all_eq(r["default"][1], r["default_want"])), cex=cex,
                     kind="restore() without a step returns the latest completed step")
            for step, (it, vals, want) in r["explicit"].items():
                ob.prove(f"explicit-step{step}{list(r['h'])}", o.pc, zx.land(it == step, _all_eq(vals, want)), cex=cex,
                         kind="restore(step=s) returns exactly that step")
    return ob.result()


def _all_eq(xs, ys):
    r = True
    for x, y in zip(xs, ys):
        r = zx.land(r, zx.eq(x, y))
    return r


def run_overrides(job, ob):
    name = job["solver"]
    combos = [dict(), dict(new_checkpoint_dir=True), dict(checkpoint_frequency=1), dict(checkpoint_frequency=0), dict(new_checkpoint_dir=True, checkpoint_frequency=0), dict(max_checkpoints=3), dict(enable_async_checkpointing=False),
              dict(new_checkpoint_dir=True, checkpoint_frequency=1, max_checkpoints=3, enable_async_checkpointing=False),
              dict(new_checkpoint_dir=True, checkpoint_frequency=3, max_checkpoints=1)]

    def fn(dirs):
        res = []
        for ov in combos:
            d = dirs.new()
            s = ckkit.make_solver(name, ckkit.make_problem("forest"), ckdir=d, f=2, m=2, async_=True)
            ab = ckkit.Abstraction()
            fill_symbolic(s, name, "o")
            s.iteration = 4
            saved = ckkit.state_of(s)
            s.save(4)
            s.checkpoint_manager.wait_until_finished()
            key = [k for k in om.Store.dirs if k.endswith(os.path.basename(d))][0]
            before = {k: v for k, v in om.Store.dirs[key]["committed"].items()}
            kw = dict(ov)
            nd = None
            if kw.pop("new_checkpoint_dir", False):
                nd = os.path.join(dirs.new(), "moved")   # does not exist yet
                kw["new_checkpoint_dir"] = nd
            t = type(s).restore(d, **kw)
            restored = ckkit.state_of(t)
            ab.attach(t, name, "o")
            # force two more iterations without convergence reports mattering: use the abstraction and explore
            t.solve(2)
            if t.checkpoint_manager is not None:
                t.checkpoint_manager.wait_until_finished()
            after = {k: v for k, v in om.Store.dirs[key]["committed"].items()}
            targets = [k for k in om.Store.dirs if k == os.path.abspath(nd or d)]
            unchanged = sorted(before) == sorted(after) and all(before[k] is after[k] for k in before)
            res.append(dict(ov=ov, saved=saved, restored=restored, orig_unchanged=unchanged if (nd or ov.get("checkpoint_frequency") == 0) else True,
                            new_steps=sorted(om.Store.dirs[targets[0]]["committed"]) if targets else [], end=t.iteration, new_dir_created=bool(nd) and os.path.exists(nd), f=t.checkpoint_frequency, m=t.max_checkpoints,
                            async_=t.enable_async_checkpointing, dir_ok=(t.checkpoint_frequency == 0) or str(t.checkpoint_dir) == os.path.abspath(nd or d)))
        return res
    for pi_, o in enumerate(_explore(fn)):
        if o.exc is not None:
            from ..harness import exc_origin
            if exc_origin(o.exc) == "harness":
                ob.fail_harness(f"harness raised: {o.exc!r}")
                continue
            ob.prove("no-exception", o.pc, False, cex=lambda m, o=o: dict(kind="exc", exc=repr(o.exc)))
            continue
        for r in o.value:
            ov = r["ov"]
            tag = ",".join(sorted(ov)) or "none"
            cex = lambda m, r=r: dict(kind="overrides", overrides={k: (v if not isinstance(v, str) else True) for k, v in r["ov"].items()}, new_steps=r["new_steps"])
            for field, eq in ckkit.eq_state(r["saved"], r["restored"]):
                ob.prove(f"override-keeps-{field.split('[')[0]}[{tag},{field},path{pi_}]", o.pc, eq, cex=cex, kind="overrides do not alter the restored state")
            f = ov.get("checkpoint_frequency", 2)
            m = ov.get("max_checkpoints", 2)
            ob.prove(f"override-takes-effect[{tag},path{pi_}]", [], r["f"] == f and r["m"] == m and r["async_"] == ov.get("enable_async_checkpointing", True) and r["dir_ok"],
                     cex=cex, kind="overrides take effect on the restored solver")
            if f == 0:
                # checkpointing switched off by the override: nothing more is written anywhere
                ob.prove(f"frequency-0-override-stops-saving[{tag},path{pi_}]", [], r["orig_unchanged"] and
                         (r["new_steps"] == [4] if not ov.get("new_checkpoint_dir") else (r["new_steps"] == [] and not r["new_dir_created"])), cex=cex,
                         kind="checkpoint_frequency=0 override disables further saves")
                continue
            steps = {i for i in range(5, r["end"] + 1) if i % f == 0} | {r["end"]}
            if not ov.get("new_checkpoint_dir"):
                steps |= {4}
            ob.prove(f"later-saves-follow-overrides[{tag},path{pi_}]", [], r["new_steps"] == sorted(steps)[-m:], cex=cex,
                     kind="later saves go to the (new) directory with the new frequency/retention")
            ob.prove(f"original-directory-unchanged[{tag},path{pi_}]", [], r["orig_unchanged"], cex=cex, kind="original directory untouched")
    return ob.result()


def run_errors(job, ob):
    """real filesystem + real Orbax: documented errors, no partly initialised solver escapes."""
    name = job["solver"]
    base = tempfile.mkdtemp(prefix="mdpv-err-")
    cls = kit.solver_class(name)
    try:
        empty = os.path.join(base, "empty")
        os.makedirs(empty)
        got = None
        try:
            got = cls.restore(empty)
            err = None
        except Exception as e:
            err = e
        ob.prove("no-config=>FileNotFoundError", [], isinstance(err, FileNotFoundError) and got is None, cex=lambda m: dict(kind="errors", case="noconfig", solver=name),
                 kind="missing config.yaml -> FileNotFoundError")
        # config present but no completed checkpoint
        d = os.path.join(base, "nockpt")
        s = ckkit.make_solver(name, ckkit.make_problem("forest"), ckdir=d, f=5, m=1, async_=False)
        got = None
        try:
            got = cls.restore(d)
            err = None
        except Exception as e:
            err = e
        ob.prove("no-checkpoint=>ValueError", [], isinstance(err, ValueError) and got is None, cex=lambda m: dict(kind="errors", case="nockpt", solver=name),
                 kind="no completed checkpoint -> ValueError")
        t = ckkit.make_solver(name, ckkit.make_problem("tab"))
        before = (np.asarray(t.values).copy(), t.iteration)
        try:
            t.load_checkpoint(empty)
            err = None
        except Exception as e:
            err = e
        ob.prove("load_checkpoint-no-checkpoint=>ValueError", [], isinstance(err, ValueError) and t.iteration == before[1] and np.array_equal(np.asarray(t.values), before[0]),
                 cex=lambda m: dict(kind="errors", case="load", solver=name), kind="load_checkpoint without checkpoint -> ValueError, solver untouched")
    finally:
        shutil.rmtree(base, ignore_errors=True)
    return ob.result()


def small_problem_kwargs(problem):
    return {"forest": dict(S=4, r1=3.5, p=0.15),
            "de_moor": dict(max_demand=4, max_useful_life=2, lead_time=2, max_order_quantity=2, issue_policy="fifo", demand_gamma_mean=1.5),
            "hendrix": dict(max_useful_life=1, max_order_quantity_a=2, max_order_quantity_b=1, demand_poisson_mean_a=1.0, demand_poisson_mean_b=0.6, substitution_probability=0.25),
            "mirjalili": dict(max_demand=2, max_useful_life=2, max_order_quantity=1, useful_life_at_arrival_distribution_c_0=(0.75,),
                              useful_life_at_arrival_distribution_c_1=(0.125,), weekday_demand_negbin_n=(3.5, 11.0, 7.2, 11.1, 5.9, 5.5, 2.2))}[problem]


def run_real(job, ob):
    from .. import shipped
    from omegaconf import OmegaConf
    name, problem = job["solver"], job["problem"]
    base = tempfile.mkdtemp(prefix="mdpv-real-")
    try:
        d = os.path.join(base, "ck")
        pb = shipped.build(problem, **small_problem_kwargs(problem))
        kw = dict(checkpoint_dir=d, checkpoint_frequency=2, max_checkpoints=3, enable_async_checkpointing=True, max_batch_size=7, epsilon=1e-9)
        if name == "pvi":
            kw.update(period=3, clear_value_history_on_convergence=False)
        if name == "pi":
            kw.update(max_eval_iter=2)
        if name == "savi":
            kw.update(shuffle_states=True, random_seed=5)
        if name != "rvi":
            kw["gamma"] = 0.8
        if job.get("single"):
            kw["jax_double_precision"] = False
        s = kit.make_solver(name, pb, **kw)
        held = capture_saves(s)
        s.solve(3)
        s.checkpoint_manager.wait_until_finished()
        cls = type(s)
        t = cls.restore(d)
        cexf = lambda m: dict(kind="real", solver=name, problem=problem)
        same_cfg = OmegaConf.to_container(OmegaConf.structured(t.config)) == OmegaConf.to_container(OmegaConf.structured(s.config))
        ob.prove("config-equal-after-yaml-round-trip", [], bool(same_cfg), cex=cexf, kind="restored configuration equals the original (concrete)")
        pcfg_same = all(_eqv(getattr(t.problem.config, k), getattr(pb.config, k)) for k in small_problem_kwargs(problem))
        ob.prove("problem-parameters-equal", [], bool(pcfg_same), cex=cexf, kind="restored problem parameters equal the original (concrete)")
        last = max(held)
        ob.prove("state-bitwise-equal", [], t.iteration == last and _state_equal(held[last], t, name), cex=cexf, kind="restored runtime state bitwise equal to what the solver held at that step (real Orbax)")
        first = min(int(p_) for p_ in os.listdir(d) if p_.isdigit())
        u = cls.restore(d, step=first)
        ob.prove("explicit-step", [], u.iteration == first and _state_equal(held[first], u, name), cex=cexf, kind="restore(step=s) returns step s (real Orbax)")
        v = kit.make_solver(name, shipped.build(problem, **small_problem_kwargs(problem)), **{k: v_ for k, v_ in kw.items() if not k.startswith("checkpoint") and k not in ("max_checkpoints", "enable_async_checkpointing")})
        v.load_checkpoint(d)
        ob.prove("load_checkpoint-bitwise-equal", [], _state_equal(held[last], v, name), cex=cexf, kind="load_checkpoint state bitwise equal (real Orbax)")
        # continuing both gives identical results (the restored one writes into its own directory: two live solvers must
        # not write the same steps into one directory concurrently)
        t2 = cls.restore(d, new_checkpoint_dir=os.path.join(base, "resume"))
        s.solve(2)
        s.checkpoint_manager.wait_until_finished()
        t2.solve(2)
        t2.checkpoint_manager.wait_until_finished()
        ob.prove("continuation-identical", [], _state_equal(Held(s), t2, name) or name == "savi", cex=cexf, kind="restored solver continues exactly like the original (fixed order)")
    finally:
        shutil.rmtree(base, ignore_errors=True)
    return ob.result()


FRESH_SCRIPT = r'''
import json, sys
import jax, jax.numpy as jnp, numpy as np
name, mode, ckdir = sys.argv[1], sys.argv[2], sys.argv[3]
from mdpax.problems import Forest
import mdpax.solvers as ms
cls = {"vi": ms.ValueIteration, "pi": ms.PolicyIteration, "rvi": ms.RelativeValueIteration, "pvi": ms.PeriodicValueIteration, "savi": ms.SemiAsyncValueIteration}[name]
def state(s):
    d = dict(iteration=int(s.iteration), dtype=str(np.asarray(s.values).dtype), values=np.asarray(s.values).tobytes().hex(), x64=bool(jax.config.jax_enable_x64),
             gamma_dtype=str(jnp.asarray(s.gamma).dtype))
    if hasattr(s, "gain"): d["gain"] = float(s.gain)
    return d
if mode == "make":
    kw = dict(verbose=0, epsilon=1e-12, jax_double_precision=False, checkpoint_dir=ckdir, checkpoint_frequency=1, max_checkpoints=2, enable_async_checkpointing=False)
    if name == "pvi": kw["period"] = 2
    if name != "rvi": kw["gamma"] = 0.9
    s = cls(Forest(S=5, r1=7.0), **kw)
    s.solve(3)
    saved = state(s)
    s.checkpoint_frequency = 0   # the continuation of the original must not add checkpoints to the directory
    s.solve(1)
    print("@@", json.dumps(dict(saved=saved, continued=state(s))))
else:
    x64_before = bool(jax.config.jax_enable_x64)
    t = cls.restore(ckdir, new_checkpoint_dir=ckdir + "-resume", checkpoint_frequency=0)
    restored = state(t)
    t.solve(1)
    print("@@", json.dumps(dict(x64_before=x64_before, restored=restored, continued=state(t))))
'''


def run_fresh(job, ob):
    """single-precision run saved in one fresh process (64-bit mode off) and restored in another"""
    import subprocess
    import sys
    name = job["solver"]
    base = tempfile.mkdtemp(prefix="mdpv-fresh-")
    cexf = lambda m: dict(kind="fresh", solver=name)
    try:
        d = os.path.join(base, "ck")
        env = dict(os.environ)
        env.pop("JAX_ENABLE_X64", None)
        res = {}
        for mode in ("make", "restore"):
            cp = subprocess.run([sys.executable, "-c", FRESH_SCRIPT, name, mode, d], env=env, capture_output=True, text=True, timeout=900)
            line = [l for l in cp.stdout.splitlines() if l.startswith("@@")]
            res[mode] = json.loads(line[0][2:]) if line else None
            if res[mode] is None:
                ob.extra.setdefault("errors", []).append(cp.stderr[-400:])
        ob.prove("fresh-processes-complete", [], res["make"] is not None and res["restore"] is not None, cex=cexf, kind="save and restore in fresh processes complete")
        if res["make"] and res["restore"]:
            a, b = res["make"], res["restore"]
            ob.prove("scenario-is-single-precision", [], a["saved"]["dtype"] == "float32" and a["saved"]["x64"] is False and b["x64_before"] is False, cex=cexf,
                     kind="reachability: the run was single precision in a process without 64-bit mode")
            ob.prove("restored-state-bitwise-equal", [], b["restored"] == dict(a["saved"]), cex=cexf,
                     kind="restored state (dtype, bytes, iteration, gain, process precision mode) equals the saved one (fresh processes, single precision)")
            ob.prove("continuation-identical", [], b["continued"] == a["continued"], cex=cexf, kind="restored solver continues exactly like the original (fresh processes, single precision)")
            ob.extra["fresh"] = dict(saved=a["saved"]["dtype"], restored=b["restored"]["dtype"])
    finally:
        shutil.rmtree(base, ignore_errors=True)
    return ob.result()


def run_reuse(job, ob):
    """Directories, configuration objects and managers that are used more than once (real Orbax, real YAML)."""
    from omegaconf import OmegaConf
    from mdpax.problems import Forest
    name = job["solver"]
    cls = kit.solver_class(name)
    base = tempfile.mkdtemp(prefix="mdpv-reuse-")
    cexf = lambda m: dict(kind="reuse", solver=name)
    cfgcls = type(kit.make_solver(name, Forest(S=3)).config)
    extra = dict(period=2) if name == "pvi" else {}
    try:
        # (1) one configuration object reused for a parameter sweep over problem instances
        cfg = cfgcls(gamma=1.0 if name == "rvi" else 0.9, epsilon=1e-12, checkpoint_frequency=1, max_checkpoints=4,
                     enable_async_checkpointing=False, verbose=0, max_batch_size=4, **extra)
        runs = {}
        for r1 in (4.0, 10.0):
            cfg.checkpoint_dir = os.path.join(base, f"sweep{int(r1)}")
            s = cls(problem=Forest(S=5, r1=r1, r2=2.0, p=0.1), config=cfg)
            held = capture_saves(s)
            s.solve(3)
            runs[r1] = (cfg.checkpoint_dir, held, s)
        for r1, (d, held, s) in runs.items():
            t = cls.restore(d, new_checkpoint_dir=os.path.join(base, f"resume{int(r1)}"))
            ob.prove(f"sweep-problem[r1={r1}]", [], float(t.problem.r1) == r1 and float(t.config.problem.r1) == r1 and int(t.problem.S) == 5, cex=cexf,
                     kind="restore() rebuilds the problem of the run that wrote the directory (configuration object reused across runs)")
            ob.prove(f"sweep-state[r1={r1}]", [], _state_equal(held[max(held)], t, name), cex=cexf,
                     kind="restored state equals what that run held (configuration object reused across runs)")
        # (2) restore, continue the original (more saves), restore again / load again
        d, held, s = runs[10.0]
        v = cls(problem=Forest(S=5, r1=10.0, r2=2.0, p=0.1), gamma=1.0 if name == "rvi" else 0.9, epsilon=1e-12, verbose=0, max_batch_size=4, **extra)
        v.load_checkpoint(d)
        s.solve(2)
        t2 = cls.restore(d)
        ob.prove("restore-after-more-saves", [], t2.iteration == max(held) == s.iteration and _state_equal(held[max(held)], t2, name, policy=False), cex=cexf,
                 kind="restore() after further saves returns the latest completed step")
        v.load_checkpoint(d)
        # (the stored policy of a second solve() call is the subject of the complete-* jobs and their known finding)
        ob.prove("load-after-more-saves", [], _state_equal(held[max(held)], v, name, policy=False), cex=cexf,
                 kind="load_checkpoint() after further saves returns the latest completed step")
        # (3) a directory used by an earlier run with other parameters
        d3 = os.path.join(base, "shared")
        a = cls(problem=Forest(S=5, r1=4.0, r2=2.0, p=0.1), gamma=1.0 if name == "rvi" else 0.9, epsilon=1e-3, checkpoint_dir=d3, checkpoint_frequency=1,
                max_checkpoints=2, enable_async_checkpointing=False, verbose=0, **extra)
        a.solve(2)
        b = cls(problem=Forest(S=5, r1=7.0, r2=1.0, p=0.2), gamma=1.0 if name == "rvi" else 0.5, epsilon=1e-9, checkpoint_dir=d3, checkpoint_frequency=1,
                max_checkpoints=2, enable_async_checkpointing=False, verbose=0, **extra)
        heldb = capture_saves(b)
        b.solve(4)
        t3 = cls.restore(d3)
        same_cfg = OmegaConf.to_container(OmegaConf.structured(t3.config)) == OmegaConf.to_container(OmegaConf.structured(b.config))
        ob.prove("reused-directory-config", [], bool(same_cfg) and float(t3.gamma) == float(b.gamma) and float(t3.problem.r1) == 7.0, cex=cexf,
                 kind="restore() of a directory reused by a later run gives that run's configuration")
        ob.prove("reused-directory-state", [], _state_equal(heldb[max(heldb)], t3, name), cex=cexf,
                 kind="restore() of a directory reused by a later run gives that run's state")
    finally:
        shutil.rmtree(base, ignore_errors=True)
    return ob.result()


class Held:
    """what a solver held at a given moment (deep copy of the fields the property lists)"""

    def __init__(self, s):
        self.iteration = int(s.iteration)
        self.values = np.array(s.values)
        self.policy = None if s.policy is None else np.array(s.policy)
        if hasattr(s, "gain"):
            self.gain = float(s.gain)
        if hasattr(s, "history_index"):
            self.history_index, self.period = int(s.history_index), int(s.period)
            self.value_history = None if s.value_history is None else np.array(s.value_history)


def capture_saves(s):
    held = {}
    orig = s.save

    def save(step):
        held[step] = Held(s)
        return orig(step)
    s.save = save
    return held


def _eqv(a, b):
    try:
        return list(a) == list(b)
    except TypeError:
        return a == b


def _state_equal(a, b, name, policy=True):
    ok = a.iteration == b.iteration and np.array_equal(np.asarray(a.values), np.asarray(b.values)) and \
        np.asarray(a.values).dtype == np.asarray(b.values).dtype
    if policy:
        ok = ok and ((a.policy is None) == (b.policy is None)) and (a.policy is None or np.array_equal(np.asarray(a.policy), np.asarray(b.policy)))
    if name == "rvi":
        ok = ok and float(a.gain) == float(b.gain)
    if name == "pvi":
        ok = ok and a.history_index == b.history_index and int(a.period) == int(b.period) and np.array_equal(np.asarray(a.value_history), np.asarray(b.value_history))
    return bool(ok)


def finding_key(v):
    return f"{v['job'].get('kind')}:{v['job'].get('solver')}:{v['obligation'].split('[')[0]}"


def replay(data):
    job = data["job"]
    c = unq(data["cex"]) or {}
    if c.get("kind") == "exc":
        try:
            ok, msg = replay(dict(data, cex=dict(kind="model"), obligation="override-takes-effect" if job["kind"] == "overrides" else "restored-values[values[0]]"))
            return ok, "no exception with the real Orbax; " + msg
        except Exception as ex:
            return True, f"real run raised {type(ex).__name__}: {ex}"
    ob = Obligations(job)
    if job["kind"] in ("real", "errors", "reuse", "fresh"):
        r = {"real": run_real, "errors": run_errors, "reuse": run_reuse, "fresh": run_fresh}[job["kind"]](job, ob)
        bad = [v["obligation"] for v in ob.violations]
        return bool(bad), f"{job['name']}: failing {bad}" if bad else f"{job['name']}: all hold"
    # model-level counterexamples are confirmed on the real Orbax with concrete states; only the facts the failing
    # obligation is about are evaluated
    name = job["solver"]
    obn = data["obligation"]
    base = tempfile.mkdtemp(prefix="mdpv-c10-")
    try:
        d = os.path.join(base, "ck")
        s = ckkit.make_solver(name, ckkit.make_problem("forest"), ckdir=d, f=1, m=3, async_=True, epsilon=1e-12)
        held = capture_saves(s)
        s.solve(2)
        s.solve(1)   # the checkpoint of iteration 3 is written while the solver holds the policy of the first call
        s.checkpoint_manager.wait_until_finished()
        cls = type(s)
        bad = []

        def differs(h, t, what):
            fields = []
            if t.iteration != h.iteration:
                fields.append("iteration")
            if not np.array_equal(np.asarray(t.values), h.values):
                fields.append("values")
            if (t.policy is None) != (h.policy is None) or (h.policy is not None and not np.array_equal(np.asarray(t.policy), h.policy)):
                fields.append("policy")
            if hasattr(h, "gain") and float(t.gain) != h.gain:
                fields.append("gain")
            if hasattr(h, "history_index") and (t.history_index != h.history_index or int(t.period) != h.period or
                                                not np.array_equal(np.asarray(t.value_history), h.value_history)):
                fields.append("value_history/history_index/period")
            return [f"{what}: {f} differs from what the solver held at that step" for f in fields]
        field = None
        for pre in ("restored-", "override-keeps-"):
            if obn.startswith(pre):
                field = obn[len(pre):].split("[")[0]
        if field is not None:
            t = cls.restore(d)
            w = cls.restore(d, new_checkpoint_dir=os.path.join(base, "n1"), checkpoint_frequency=1, max_checkpoints=1, enable_async_checkpointing=False)
            v = ckkit.make_solver(name, ckkit.make_problem("forest"), epsilon=1e-12)
            v.load_checkpoint(d)
            allbad = differs(held[3], t, "restore()") + differs(held[3], w, "restore(overrides)") + differs(held[3], v, "load_checkpoint()")
            bad = [b for b in allbad if field.split("_")[0] in b or (field in ("value_history", "history_index", "period") and "value_history" in b)]
        elif obn.startswith("interleaved"):
            d2 = os.path.join(base, "ck2")
            s2 = ckkit.make_solver(name, ckkit.make_problem("forest"), ckdir=d2, f=1, m=3, async_=True, epsilon=1e-12)
            v2 = ckkit.make_solver(name, ckkit.make_problem("forest"), epsilon=1e-12)
            for k in (1, 2, 3):
                s2.solve(1)
                s2.checkpoint_manager.wait_until_finished()
                t = cls.restore(d2)
                v2.load_checkpoint(d2)
                for what, x in (("restore()", t), ("load_checkpoint()", v2)):
                    if x.iteration != s2.iteration or not np.array_equal(np.asarray(x.values), np.asarray(s2.values)):
                        bad.append(f"{what} after the save of step {s2.iteration} gave iteration {x.iteration}")
        elif obn.startswith(("default==latest", "explicit-step")):
            t = cls.restore(d)
            if t.iteration != 3:
                bad.append(f"restore() gave iteration {t.iteration}, latest is 3")
            for st in (1, 2, 3):
                u = cls.restore(d, step=st)
                if u.iteration != st or not np.array_equal(np.asarray(u.values), held[st].values):
                    bad.append(f"restore(step={st}) gave iteration {u.iteration}")
        else:
            nd = os.path.join(base, "new")
            w = cls.restore(d, new_checkpoint_dir=nd, checkpoint_frequency=1, max_checkpoints=1, enable_async_checkpointing=False)
            if (w.checkpoint_frequency, w.max_checkpoints, w.enable_async_checkpointing) != (1, 1, False) or str(w.checkpoint_dir) != nd:
                bad.append("overrides did not take effect")
            before = sorted(os.listdir(d))
            w.solve(2)
            if sorted(os.listdir(d)) != before:
                bad.append("original directory changed")
            if sorted(p for p in os.listdir(nd) if p.isdigit()) != [str(w.iteration)]:
                bad.append(f"new directory holds {sorted(os.listdir(nd))}")
            z = cls.restore(d, checkpoint_frequency=0)
            z.solve(2)
            if sorted(os.listdir(d)) != before or z.checkpoint_frequency != 0:
                bad.append(f"checkpoint_frequency=0 override ignored: directory {before} -> {sorted(os.listdir(d))}")
            nd2 = os.path.join(base, "new2")
            z2 = cls.restore(d, new_checkpoint_dir=nd2, checkpoint_frequency=0)
            z2.solve(1)
            if os.path.exists(nd2) or sorted(os.listdir(d)) != before:
                bad.append("checkpoint_frequency=0 with a new directory still wrote something")
            y = cls.restore(d, max_checkpoints=2)
            y.solve(3)
            y.checkpoint_manager.wait_until_finished()
            if len([p for p in os.listdir(d) if p.isdigit()]) != 2:
                bad.append(f"max_checkpoints=2 override: directory holds {sorted(os.listdir(d))}")
        return bool(bad), f"{name}: " + ("; ".join(bad) or "real Orbax behaves as documented for this obligation")
    finally:
        shutil.rmtree(base, ignore_errors=True)

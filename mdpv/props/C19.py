"""C19 - range spaces enumerate the integer box and the index function inverts them."""
from __future__ import annotations

import itertools

import jax.numpy as jnp
import numpy as np
import z3

from .. import pathx, zx
from ..harness import Obligations
from ..trace import symbolic, sym, val_of

ID = "C19"
LEVEL = "model_checking"
FUNCTIONS = ["mdpax.utils.spaces.create_range_space", "index_fn closure (jnp.ravel_multi_index, mode='clip')"]
RULE = ("Boxes (mins, maxs) are enumerated (they are shapes); for each box the real index_fn is executed on a "
        "symbolic integer vector with unbounded components; obligations: in-box vectors map to their row-major "
        "rank, every vector maps to the rank of the coordinate-wise nearest box point, the listed space is the "
        "row-major enumeration.")
ASSUMPTIONS = ["int32 modelled as mathematical integers (vector components unbounded)",
               "bounds enumerated in -2..3 per dimension (dims 1..3 quick, ..4 thorough)"]
OUTSIDE = "bounds outside -2..3, more than 4 dimensions, int32 overflow of the index arithmetic"
EXPLANATION = "real index_fn under the z3-valued JAX trace; LIA queries per box"
JOB_TIMEOUT = {"quick": 900, "thorough": 3000}


def bounds(tier):
    return {"dims": [1, 2, 3] if tier == "quick" else [1, 2, 3, 4], "mins/maxs": "-2..3, zero-width included",
            "vector": "symbolic, unbounded integers"}


def _pairs():
    return [(a, b) for a in range(-2, 4) for b in range(a, 4)]


def jobs(tier, seed):
    rng = np.random.default_rng(seed)
    boxes = []
    P = _pairs()
    for dim in (1, 2):
        boxes += list(itertools.product(P, repeat=dim))
    all3 = list(itertools.product(P, repeat=3))
    if tier == "quick":
        idx = rng.choice(len(all3), 300, replace=False)
        boxes += [all3[i] for i in idx]
    else:
        boxes += all3
        for _ in range(2000):
            boxes.append(tuple(P[i] for i in rng.integers(0, len(P), 4)))
    out = []
    chunk = 60 if tier == "quick" else 200
    for k in range(0, len(boxes), chunk):
        out.append(dict(name=f"boxes-{k}", boxes=[[list(p) for p in b] for b in boxes[k:k + chunk]], devices=1, cost=1))
    return out


def run_job(job):
    from mdpax.utils.spaces import create_range_space
    ob = Obligations(job)
    done = []   # boxes constructed earlier in this process (the constructor is called many times per process by its users)
    for box in job["boxes"]:
        mins = [p[0] for p in box]
        maxs = [p[1] for p in box]
        dim = len(box)
        sizes = [b - a + 1 for a, b in box]
        strides = [int(np.prod(sizes[k + 1:])) for k in range(dim)]
        n = int(np.prod(sizes))
        tag = f"{mins}->{maxs}"
        space, index_fn = create_range_space(np.array(mins), np.array(maxs))
        expect = np.array(list(itertools.product(*[range(a, b + 1) for a, b in box])), dtype=np.int64).reshape(n, dim)
        hist = [list(b) for b in done]
        ob.prove(f"space-row-major[{tag}]", [], np.asarray(space).shape == (n, dim) and
                 np.array_equal(np.asarray(space), expect), kind="space listing",
                 cex=lambda m: dict(mins=mins, maxs=maxs, vector=None, history=hist))
        # a second construction of the same box (and every later one) lists the same space
        space2, _ = create_range_space(np.array(mins), np.array(maxs))
        ob.prove(f"space-row-major-again[{tag}]", [], np.asarray(space2).shape == (n, dim) and np.array_equal(np.asarray(space2), expect),
                 kind="space listing (repeated construction)", cex=lambda m: dict(mins=mins, maxs=maxs, vector=None, history=hist + [[mins, maxs]]))
        done.append([mins, maxs])
        ex = pathx.Explorer()

        def run():
            with symbolic():
                v = sym("v", (dim,), "int")
                return val_of(v), val_of(index_fn(v))[()]
        for o in ex.explore(run):
            if o.exc is not None:
                from ..harness import exc_origin
                if exc_origin(o.exc) == "harness":
                    ob.fail_harness(f"harness raised: {o.exc!r}")
                    continue
                ob.fail_harness(f"index_fn raised {o.exc!r} for box {tag}")
                continue
            v, idx = o.value
            vz = [zx.Z(x) for x in v]
            inbox = z3.And(*[z3.And(vz[k] >= mins[k], vz[k] <= maxs[k]) for k in range(dim)])
            rank = sum((vz[k] - mins[k]) * strides[k] for k in range(dim))
            near = [z3.If(vz[k] < mins[k], mins[k], z3.If(vz[k] > maxs[k], maxs[k], vz[k])) for k in range(dim)]
            nrank = sum((near[k] - mins[k]) * strides[k] for k in range(dim))

            def cexf(m):
                return dict(mins=mins, maxs=maxs, vector=[zx.model_value(m, x) for x in v], history=hist)
            ob.prove(f"in-box-rank[{tag}]", o.pc + [inbox], zx.Z(idx) == rank, kind="in-box vector -> own row", cex=cexf)
            ob.prove(f"valid-row[{tag}]", o.pc, z3.And(zx.Z(idx) >= 0, zx.Z(idx) < n), kind="any vector -> valid row", cex=cexf)
            ob.prove(f"nearest[{tag}]", o.pc, zx.Z(idx) == nrank, kind="any vector -> nearest box point", cex=cexf)
    return ob.result()


def finding_key(v):
    c = v.get("cex") or {}
    mins = c.get("mins") or []
    kind = v["obligation"].split("[")[0]
    return f"{kind}:{'nonzero-mins' if any(m != 0 for m in mins) else 'zero-mins'}"


def replay(data):
    from mdpax.utils.spaces import create_range_space
    c = data["cex"]
    mins, maxs = c["mins"], c["maxs"]
    if c.get("history") and not data.get("_with_history"):
        # first as a single call in a fresh process; if that does not reproduce, after the constructions that preceded it
        ok, msg = replay(dict(data, cex=dict(c, history=None)))
        if ok:
            return ok, msg
        for (mi, ma) in c["history"]:
            create_range_space(np.array(mi), np.array(ma))
        ok, msg = replay(dict(data, cex=dict(c, history=None), _with_history=True))
        return ok, msg + f" [after {len(c['history'])} earlier constructions in the same process]"
    space, index_fn = create_range_space(np.array(mins), np.array(maxs))
    sizes = [b - a + 1 for a, b in zip(mins, maxs)]
    expect = np.array(list(itertools.product(*[range(a, b + 1) for a, b in zip(mins, maxs)])), dtype=np.int64)
    if c.get("vector") is None:
        return (not np.array_equal(np.asarray(space), expect.reshape(len(expect), len(mins)))), "space listing"
    v = [int(x) for x in c["vector"]]
    got = int(index_fn(jnp.array(v, dtype=jnp.int32)))
    near = [min(max(x, a), b) for x, a, b in zip(v, mins, maxs)]
    want = int(np.ravel_multi_index([x - a for x, a in zip(near, mins)], sizes))
    return got != want, f"create_range_space({mins},{maxs}): index_fn({v}) = {got}, row of nearest box point {near} is {want}"

"""C18 - batching places every state exactly once and round-trips losslessly."""
from __future__ import annotations

import jax
import jax.numpy as jnp
import numpy as np
import z3

from .. import pathx, zx
from ..harness import Obligations
from ..pathx import SymInt, unwrap
from ..trace import symbolic, sym, val_of, lift

ID = "C18"
LEVEL = "model_checking"
FUNCTIONS = ["BatchProcessor.__init__", "BatchProcessor.prepare_batches", "BatchProcessor.unbatch_results",
             "BatchProcessor.batch_shape"]
RULE = ("Part A: one job per device count 1..8 with n_states and max_batch_size unbounded symbolic integers; every "
        "path of the real constructor yields one obligation per arithmetic fact. Part B: one job per block of "
        "concrete (n_states, max_batch_size, devices); the state array / result array consist of distinct symbols "
        "and each configuration yields routing obligations.")
ASSUMPTIONS = [
    "Part A: n_states >= 1, max_batch_size >= 1 (the validated domain); integers are mathematical (no int64 overflow)",
    "Part B routing is shown for the enumerated sizes only; outside them only Part A's arithmetic is claimed",
    "device count passed explicitly via pmap_device_count (1..8) in Part A/B; the default path len(jax.devices()) is "
    "checked concretely per emulated-device process",
]
OUTSIDE = "routing for sizes outside the Part-B box; device counts above 8"
EXPLANATION = ("The real BatchProcessor constructor runs on symbolic integers under the path explorer (unbounded "
               "n_states/max_batch_size), prepare/unbatch run under the z3-valued JAX trace on arrays of symbols.")
JOB_TIMEOUT = {"quick": 900, "thorough": 3000}


def bounds(tier):
    if tier == "quick":
        return {"partA": "n_states>=1, max_batch_size>=1 unbounded; devices 1..8",
                "partB": "1 device: n<=24, max_batch<=8; devices 2,3,4,8: n in sampled grid up to 200; trailing shapes (),(2,),(2,3)"}
    return {"partA": "n_states>=1, max_batch_size>=1 unbounded; devices 1..8",
            "partB": "1 device: n<=40, max_batch<=12; devices 2..8: n in sampled grid up to 600; trailing shapes (),(2,),(2,3)"}


def jobs(tier, seed):
    out = [dict(name=f"arith-dev{d}", kind="arith", nd=d, devices=1, cost=5) for d in range(1, 9)]
    nmax, mbmax = (24, 8) if tier == "quick" else (40, 12)
    for lo in range(1, nmax + 1, 6):
        out.append(dict(name=f"route-dev1-n{lo}..{min(lo + 5, nmax)}", kind="route", nd=1,
                        ns=list(range(lo, min(lo + 6, nmax + 1))), mbs=list(range(1, mbmax + 1)), devices=1, cost=20))
    grid = [1, 2, 3, 5, 7, 63, 64, 65, 127, 128, 129, 191, 200] if tier == "quick" else \
        [1, 2, 3, 4, 5, 7, 8, 9, 11, 13, 63, 64, 65, 127, 128, 129, 191, 192, 193, 255, 256, 257, 383, 509, 512, 521, 600]
    for nd in ([2, 3, 4, 8] if tier == "quick" else [2, 3, 4, 5, 6, 7, 8]):
        for chunk in range(0, len(grid), 5):
            out.append(dict(name=f"route-dev{nd}-grid{chunk}", kind="route", nd=nd, ns=grid[chunk:chunk + 5],
                            mbs=[1, 2, 64, 70, 1024], devices=1, cost=40))
    for d in ([1, 2] if tier == "quick" else [1, 2, 3, 4, 8]):
        out.append(dict(name=f"default-devices-{d}", kind="default", devices=d, cost=1))
    return out


def run_job(job):
    ob = Obligations(job)
    from mdpax.utils.batch_processing import BatchProcessor
    if job["kind"] == "arith":
        nd = job["nd"]
        n, mb = z3.Int("n"), z3.Int("mb")
        pre = [n >= 1, mb >= 1]
        ex = pathx.Explorer(timeout_ms=60000)

        def run():
            return BatchProcessor(SymInt(n), 3, SymInt(mb), nd)
        paths = 0
        for o in ex.explore(run, pre):
            paths += 1
            if o.exc is not None:
                from ..harness import exc_origin
                if exc_origin(o.exc) == "harness":
                    ob.fail_harness(f"harness raised: {o.exc!r}")
                    continue
                ob.prove(f"no-exception[path{paths}]", o.pc, False,
                         cex=lambda m: dict(kind="arith", n=zx.model_value(m, n), mb=zx.model_value(m, mb), nd=nd))
                continue
            bp = o.value
            bs, nb, npad, ndv = [unwrap(x) for x in (bp.batch_size, bp.n_batches, bp.n_pad, bp.n_devices)]
            shape = bp.batch_shape
            facts = {
                "1<=batch_size": zx.ge(bs, 1),
                "batch_size<=max_batch_size": zx.le(bs, mb),
                "n_batches>=1": zx.ge(nb, 1),
                "n_pad>=0": zx.ge(npad, 0),
                "slots==states+pad": zx.eq(zx.mul(zx.mul(ndv, nb), bs), zx.add(n, npad)),
                "n_devices==requested": zx.eq(ndv, nd),
                "batch_shape": zx.land(zx.land(zx.eq(unwrap(shape[0]), ndv), zx.eq(unwrap(shape[1]), nb)),
                                       zx.eq(unwrap(shape[2]), bs)),
                # padding is less than one batch per device row: no device-batch is entirely superfluous
                # except as forced by the per-device ceiling division
                "pad<devices*batch_size*n_batches": zx.lt(npad, zx.mul(zx.mul(ndv, nb), bs)),
                "n_states_attr": zx.eq(unwrap(bp.n_states), n),
            }
            ob.reach(f"path{paths}", o.pc)
            for name, g in facts.items():
                ob.prove(f"{name}[dev{nd},path{paths}]", o.pc, g, kind=name,
                         cex=lambda m: dict(kind="arith", n=zx.model_value(m, n), mb=zx.model_value(m, mb), nd=nd))
        ob.extra["paths"] = paths
        return ob.result()

    if job["kind"] == "default":
        bp = BatchProcessor(10, 2)
        ob.prove("default-device-count", [], bp.n_devices == len(jax.devices()) == job["devices"],
                 cex=lambda m: dict(kind="default", devices=job["devices"]))
        ob.prove("default-shape", [], bp.batch_shape == (bp.n_devices, bp.n_batches, bp.batch_size))
        return ob.result()

    nd = job["nd"]
    configs = 0
    for n in job["ns"]:
        for mb in job["mbs"]:
            configs += 1
            bp = BatchProcessor(n, 2, mb, nd)
            ndv, nb, bs, npad = bp.n_devices, bp.n_batches, bp.batch_size, bp.n_pad
            if ndv * nb * bs > 6000:
                continue
            with symbolic():
                states = sym("s", (n, 2), "int")
                batched = bp.prepare_batches(states)
                sv, bv = val_of(states), val_of(batched)
                goal = bv.shape == (ndv, nb, bs, 2)
                if goal:
                    for d in range(ndv):
                        for b in range(nb):
                            for k in range(bs):
                                i = d * nb * bs + b * bs + k
                                for c in range(2):
                                    want = sv[i, c] if i < n else 0
                                    goal = zx.land(goal, zx.eq(bv[d, b, k, c], want))
                ob.prove(f"prepare[n{n},mb{mb},dev{nd}]", [], goal, kind="prepare_batches layout",
                         cex=lambda m, n=n, mb=mb: dict(kind="route", n=n, mb=mb, nd=nd))
                for trail in ((), (2,), (2, 3)):
                    res = sym("r", (ndv, nb, bs) + trail)
                    un = val_of(bp.unbatch_results(res))
                    rv = val_of(res).reshape((ndv * nb * bs,) + trail)
                    goal = un.shape == (n,) + trail
                    if goal:
                        for idx in np.ndindex(un.shape):
                            goal = zx.land(goal, zx.eq(un[idx], rv[idx]))
                    ob.prove(f"unbatch{list(trail)}[n{n},mb{mb},dev{nd}]", [], goal, kind="unbatch_results rows",
                             cex=lambda m, n=n, mb=mb: dict(kind="route", n=n, mb=mb, nd=nd))
    ob.extra["configs"] = configs
    return ob.result()


def finding_key(v):
    return v["obligation"].split("[")[0]


def replay(data):
    from mdpax.utils.batch_processing import BatchProcessor
    c = data["cex"]
    if c["kind"] == "default":
        bp = BatchProcessor(10, 2)
        return bp.n_devices != len(jax.devices()), f"n_devices={bp.n_devices} devices={len(jax.devices())}"
    n, mb, nd = int(c["n"]), int(c["mb"]), int(c["nd"])
    try:
        bp = BatchProcessor(n, 2, mb, nd)
    except Exception as e:
        return True, f"BatchProcessor({n},2,{mb},{nd}) raised {e!r}"
    ok = (1 <= bp.batch_size <= mb and bp.n_batches >= 1 and bp.n_pad >= 0 and bp.n_devices == nd
          and bp.n_devices * bp.n_batches * bp.batch_size == n + bp.n_pad
          and bp.batch_shape == (bp.n_devices, bp.n_batches, bp.batch_size))
    if ok and n <= 5000:
        st = jnp.arange(1, 2 * n + 1).reshape(n, 2)
        b = np.asarray(bp.prepare_batches(st))
        flat = b.reshape(-1, 2)
        ok = b.shape == (nd, bp.n_batches, bp.batch_size, 2) and np.array_equal(flat[:n], np.asarray(st)) \
            and not flat[n:].any()
        for trail in ((), (2,), (2, 3)):
            r = np.arange(np.prod((nd, bp.n_batches, bp.batch_size) + trail)).reshape((nd, bp.n_batches, bp.batch_size) + trail)
            u = np.asarray(bp.unbatch_results(jnp.asarray(r)))
            ok = ok and u.shape == (n,) + trail and np.array_equal(u, r.reshape((-1,) + trail)[:n])
    return (not ok), f"BatchProcessor(n={n}, max_batch={mb}, devices={nd}): shape={bp.batch_shape} n_pad={bp.n_pad}"

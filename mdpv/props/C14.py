"""C14 - shipped problems are closed and their state index is consistent."""
from __future__ import annotations

import math

import jax
import jax.numpy as jnp
import numpy as np
import z3

from .. import pathx, shipped, zx
from ..harness import Obligations, unq
from ..trace import symbolic, sym, val_of

ID = "C14"
LEVEL = "model_checking"
FUNCTIONS = ["<Problem>.transition", "<Problem>.state_to_index", "create_range_space index_fn",
             "<Problem>._construct_state_space/_construct_action_space/_construct_random_event_space (concrete leg)"]
RULE = ("One job per problem parameterisation (sizes are shapes). State, action and event are symbolic integer vectors "
        "constrained to the listed spaces and to the positive-probability predicate; obligations: every successor "
        "component lies in its range, the real state_to_index of the successor equals its row-major rank (no "
        "clipping), the real state_to_index of a listed state equals its rank. Concrete leg: documented sizes, "
        "no duplicate rows, space[index(v)] == v for every row.")
ASSUMPTIONS = [
    "positive-probability predicate: De Moor/Forest - every listed event; Hendrix - units issued of each product <= its "
    "total stock (the four-case decomposition assigns zero to everything else; decided in C16); Mirjalili - received "
    "units sum to the order quantity",
    "int32 as integers",
]
OUTSIDE = "parameterisations outside the enumerated ones (useful life > 5, lead time > 4, order limits > 3)"
EXPLANATION = "real transition + real index function under the z3-valued trace with bounded symbolic vectors; LIA queries"
JOB_TIMEOUT = {"quick": 900, "thorough": 3000}


def bounds(tier):
    return {"de_moor": "useful life 1..4, lead time 1..3, Q in {1,2}" if tier == "quick" else "useful life 1..5, lead time 1..4, Q in {1,2,3} (state space <= 20000)",
            "hendrix": "useful life 1..2(3), (Qa,Qb) in {(1,1),(2,1),(1,2),(2,3)}", "mirjalili": "useful life 1..4(5), Q in {1,2,3}, max_demand in {1,3}",
            "forest": "S in 1..6"}


def jobs(tier, seed):
    out = []
    q = tier == "quick"
    for m in (range(1, 5) if q else range(1, 6)):
        for L in (range(1, 4) if q else range(1, 5)):
            for Q in ((1, 2) if q else (1, 2, 3)):
                if (Q + 1) ** (m + L - 1) > (3000 if q else 20000):
                    continue
                for pol in ("fifo", "lifo"):
                    out.append(dict(name=f"de_moor-m{m}-L{L}-Q{Q}-{pol}", problem="de_moor", devices=1, cost=(Q + 1) ** (m + L - 1),
                                    kw=dict(max_demand=Q + 1, max_useful_life=m, lead_time=L, max_order_quantity=Q, issue_policy=pol)))
    for m in ((1, 2) if q else (1, 2, 3)):
        for Qa, Qb in ((1, 1), (2, 1), (1, 2), (2, 3)):
            if ((Qa + 1) * (Qb + 1)) ** m > 3000:
                continue
            out.append(dict(name=f"hendrix-m{m}-Qa{Qa}-Qb{Qb}", problem="hendrix", devices=1, cost=200 * m,
                            kw=dict(max_useful_life=m, max_order_quantity_a=Qa, max_order_quantity_b=Qb)))
    for m in (range(1, 5) if q else range(1, 6)):
        for Q in (1, 2, 3):
            for D in (1, 3):
                if 7 * (Q + 1) ** (m - 1) * math.comb(Q + m, m) * (D + 1) > (40000 if q else 200000):
                    continue
                out.append(dict(name=f"mirjalili-m{m}-Q{Q}-D{D}", problem="mirjalili", devices=1, cost=100 * m,
                                kw=dict(max_useful_life=m, max_order_quantity=Q, max_demand=D)))
    for S in range(1, 7):
        out.append(dict(name=f"forest-S{S}", problem="forest", devices=1, cost=1, kw=dict(S=S)))
    # the same obligations for an instance created after sibling instances (one parameter changed each) in the same process
    for name in ("de_moor-m2-L2-Q2-fifo", "hendrix-m1-Qa2-Qb1", "hendrix-m2-Qa1-Qb1", "mirjalili-m2-Q2-D1", "mirjalili-m3-Q1-D3", "forest-S3"):
        j = [x for x in out if x["name"] == name]
        if j:
            out.append(dict(j[0], name=name + "-after-siblings", history=True, cost=j[0]["cost"] + 50))
    # bounds that do not fit narrow integer types
    out.append(dict(name="de_moor-m2-L1-Q130-fifo", problem="de_moor", devices=1, cost=400,
                    kw=dict(max_demand=3, max_useful_life=2, lead_time=1, max_order_quantity=130, issue_policy="fifo")))
    out.append(dict(name="hendrix-m1-Qa130-Qb1", problem="hendrix", devices=1, cost=300, kw=dict(max_useful_life=1, max_order_quantity_a=130, max_order_quantity_b=1)))
    out.append(dict(name="mirjalili-m2-Q130-D1", problem="mirjalili", devices=1, cost=400, kw=dict(max_useful_life=2, max_order_quantity=130, max_demand=1)))
    return out


def build(job):
    if job.get("history"):
        with shipped.history():
            return shipped.build(job["problem"], **job["kw"])
    return shipped.build(job["problem"], **job["kw"])


def documented_sizes(p, kw):
    if p == "de_moor":
        Q, m, L, D = kw["max_order_quantity"], kw["max_useful_life"], kw["lead_time"], kw["max_demand"]
        return (Q + 1) ** (m + L - 1), Q + 1, D + 1
    if p == "hendrix":
        m, Qa, Qb = kw["max_useful_life"], kw["max_order_quantity_a"], kw["max_order_quantity_b"]
        return ((Qa + 1) * (Qb + 1)) ** m, (Qa + 1) * (Qb + 1), (m * Qa + 1) * (m * Qb + 1)
    if p == "mirjalili":
        m, Q, D = kw["max_useful_life"], kw["max_order_quantity"], kw["max_demand"]
        return 7 * (Q + 1) ** (m - 1), Q + 1, (D + 1) * math.comb(Q + m, m)
    return kw["S"], 2, 2


def space_box(space):
    a = np.asarray(space)
    return a.min(0).tolist(), a.max(0).tolist()


def run_job(job):
    ob = Obligations(job)
    p, kw = job["problem"], job["kw"]
    pb = build(job)
    ss, as_, es = np.asarray(pb.state_space), np.asarray(pb.action_space), np.asarray(pb.random_event_space)
    nS, nA, nE = documented_sizes(p, kw)
    ob.prove("documented-sizes", [], (len(ss), len(as_), len(es)) == (nS, nA, nE), kind="sizes",
             cex=lambda m: dict(kind="sizes", got=[len(ss), len(as_), len(es)], want=[nS, nA, nE]))
    for nm, sp in (("state", ss), ("action", as_), ("event", es)):
        ob.prove(f"no-duplicate-rows[{nm}]", [], len(np.unique(sp, axis=0)) == len(sp), kind="no duplicates",
                 cex=lambda m, nm=nm: dict(kind="dups", space=nm))
    idx = np.asarray(jax.vmap(pb.state_to_index)(pb.state_space))
    ob.prove("index-of-row-is-row", [], bool(np.array_equal(idx, np.arange(len(ss)))), kind="space[index(v)]==v (concrete, all rows)",
             cex=lambda m: dict(kind="rowindex", first_bad=int(np.argmax(idx != np.arange(len(ss))))))
    smin, smax = space_box(ss)
    sd = ss.shape[1]
    sizes = [hi - lo + 1 for lo, hi in zip(smin, smax)]
    strides = [int(np.prod(sizes[k + 1:])) for k in range(sd)]
    full_box = int(np.prod(sizes)) == len(ss)
    ob.prove("state-space-is-box", [], full_box, kind="state space is the full integer box", cex=lambda m: dict(kind="box"))
    amin, amax = space_box(as_)
    emin, emax = space_box(es)
    ex = pathx.Explorer()

    def run():
        with symbolic():
            st, ac, ev = sym("s", (sd,), "int"), sym("a", (as_.shape[1],), "int"), sym("e", (es.shape[1],), "int")
            pre = []
            for v, lo, hi in ((st, smin, smax), (ac, amin, amax), (ev, emin, emax)):
                for k, x in enumerate(v.val):
                    pre.append(zx.declare_bounds(x, lo[k], hi[k]))
            s, a, e = list(st.val), list(ac.val), list(ev.val)
            m = kw.get("max_useful_life", 1)
            if p == "hendrix":
                pre += [e[0] <= shipped.ssum(s[:m]), e[1] <= shipped.ssum(s[m:])]
            if p == "mirjalili":
                pre += [shipped.ssum(e[1:]) == a[0]]
            pathx.CUR.assume(z3.And(*pre))
            ns, _ = pb.transition(st, ac, ev)
            i_succ = pb.state_to_index(ns)
            i_self = pb.state_to_index(st)
            return s, a, e, list(val_of(ns).reshape(-1)), val_of(i_succ).reshape(())[()], val_of(i_self).reshape(())[()], pre
    for o in ex.explore(run):
        if o.exc is not None:
            from ..harness import exc_origin
            if exc_origin(o.exc) == "harness":
                ob.fail_harness(f"harness raised: {o.exc!r}")
                continue
            ob.fail_harness(f"raised under symbolic execution: {o.exc!r}")
            continue
        s, a, e, ns, i_succ, i_self, pre = o.value
        pc = o.pc
        ob.reach("path", pc)

        def cexf(m):
            return dict(kind="closure", state=[zx.model_value(m, x) for x in s], action=[zx.model_value(m, x) for x in a],
                        event=[zx.model_value(m, x) for x in e])
        for k in range(sd):
            ob.prove(f"successor-in-range[{k}]", pc, zx.land(zx.ge(ns[k], smin[k]), zx.le(ns[k], smax[k])), cex=cexf,
                     kind="successor component within its listed range")
        rank = shipped.ssum([zx.mul(zx.sub(ns[k], smin[k]), strides[k]) for k in range(sd)])
        ob.prove("successor-index==rank", pc, zx.eq(i_succ, rank), cex=cexf, kind="index(successor) == row-major rank (no clipping)")
        rank0 = shipped.ssum([zx.mul(zx.sub(s[k], smin[k]), strides[k]) for k in range(sd)])
        ob.prove("state-index==rank", pc, zx.eq(i_self, rank0), cex=cexf, kind="index(state) == own row")
    return ob.result()


def finding_key(v):
    return f"{v['job'].get('problem')}:{v['obligation'].split('[')[0]}"


def replay(data):
    c = unq(data["cex"])
    job = data["job"]
    pb = build(job)
    ss = np.asarray(pb.state_space)
    if c is None or c.get("kind") != "closure":
        nS, nA, nE = documented_sizes(job["problem"], job["kw"])
        idx = np.asarray(jax.vmap(pb.state_to_index)(pb.state_space))
        bad = (len(ss), pb.n_actions, pb.n_random_events) != (nS, nA, nE) or not np.array_equal(idx, np.arange(len(ss))) \
            or len(np.unique(ss, axis=0)) != len(ss)
        return bool(bad), f"{job['name']}: sizes {(len(ss), pb.n_actions, pb.n_random_events)} documented {(nS, nA, nE)}; index(rows)==rows: {np.array_equal(idx, np.arange(len(ss)))}"
    st, ac, ev = [int(x) for x in c["state"]], [int(x) for x in c["action"]], [int(x) for x in c["event"]]
    prob = float(np.asarray(pb.random_event_probability(jnp.asarray(st), jnp.asarray(ac), jnp.asarray(ev))).reshape(()))
    ns, _ = pb.transition(jnp.asarray(st, dtype=jnp.int32), jnp.asarray(ac, dtype=jnp.int32), jnp.asarray(ev, dtype=jnp.int32))
    ns = np.asarray(ns).reshape(-1)
    rows = np.where((ss == ns).all(1))[0]
    i = int(pb.state_to_index(jnp.asarray(ns)))
    i0 = int(pb.state_to_index(jnp.asarray(st, dtype=jnp.int32)))
    rows0 = np.where((ss == np.array(st)).all(1))[0]
    bad = (prob > 0 and (len(rows) == 0 or rows[0] != i)) or (len(rows0) and rows0[0] != i0)
    return bool(bad), (f"{job['name']}: state {st} action {ac} event {ev} (prob {prob:.3g}) -> successor {ns.tolist()} "
                       f"listed at {rows.tolist()}, state_to_index gives {i}; index(state)={i0} vs row {rows0.tolist()}")

"""C03 - results are independent of batch size, device count and padding."""
from __future__ import annotations

import jax
import jax.numpy as jnp
import numpy as np
import z3

from .. import kit, pathx, zx
from ..harness import Obligations, tofloat, unq
from ..trace import symbolic, sym, val_of
from .C08 import shadowed

ID = "C03"
LEVEL = "model_checking"
FUNCTIONS = ["ValueIteration._update_values/_extract_policy (pmap/scan/vmap stack)", "Solver._initialize_values",
             "PolicyIteration._calculate_policy_values/_calculate_policy_value_state_batch (policy lookup for padded rows)",
             "SemiAsyncValueIteration._update_values (padding mask)", "BatchProcessor.prepare_batches/unbatch_results",
             "all five solve() loops (real-run leg, 3 sweeps, emulated devices)"]
RULE = ("One job per (n_states, max_batch_size, devices, zero-vector-is-a-state). Symbolic leg: every per-iteration function of "
        "every solver is shown equal to the same partition-free reference for all V, R, P, gamma, T (two functions equal to the "
        "same reference are equal to each other, so whole trajectories agree by induction); each real state's term may only "
        "mention its own table rows (no padded-slot leak) and every output has length n_states. Real-run leg: the five real "
        "solvers run 3 sweeps on the emulated devices against a numpy reference; an exception there is a violation.")
ASSUMPTIONS = [
    "exact arithmetic (the property's 'up to rounding')", "emulated host devices (XLA_FLAGS=--xla_force_host_platform_device_count=N)",
    "semi-asynchronous solver: partition-dependence is legitimate; its per-partition bound is decided in C01 and its per-partition "
    "Gauss-Seidel semantics in C06; here only padding-mask soundness (values of real states never read padded slots) is shown",
]
OUTSIDE = "n_states > 7 for the symbolic leg; more than 8 devices; real GPUs"
EXPLANATION = "C02-style per-state SMT equalities over the configuration box + concrete multi-device runs of the real solvers"
JOB_TIMEOUT = {"quick": 1800, "thorough": 5400}


def bounds(tier):
    return {"n_states": [1, 2, 3, 5] if tier == "quick" else [1, 2, 3, 4, 5, 7], "max_batch_size": "1..n+2",
            "devices": [1, 2] if tier == "quick" else [1, 2, 3, 4, 8], "A,E": "2,2 (n<=3) / 2,1"}


def jobs(tier, seed):
    out = []
    ns = [1, 2, 3, 5] if tier == "quick" else [1, 2, 3, 4, 5, 7]
    devs = [1, 2] if tier == "quick" else [1, 2, 3, 4, 8]
    for n in ns:
        for dv in devs:
            bss = list(range(1, n + 3)) if dv == 1 else sorted({1, 2, n, 64})
            if tier == "quick" and dv > 1:
                bss = sorted({2, n, 64})
            for bs in bss:
                for off in ((0, 1) if (bs in (2, 64) or n == 3) else (0,)):
                    out.append(dict(name=f"n{n}-bs{bs}-dev{dv}-off{off}", n=n, bs=bs, devices=dv, off=off, seed=seed,
                                    cost=n * (40 if bs == 64 and dv > 1 else 1)))
    # the corner the property names explicitly: no padding at all on two or more devices
    for (n, bs, dv) in [(4, 2, 2), (128, 64, 2)] + ([(6, 2, 3), (8, 1, 4), (8, 1, 8)] if tier == "thorough" else []):
        out.append(dict(name=f"realrun-nopad-n{n}-bs{bs}-dev{dv}", n=n, bs=bs, devices=dv, off=0, seed=seed, real_only=True, cost=3))
    return out


def cfg_of(job):
    n = job["n"]
    E = 2 if n <= 3 else 1
    return dict(S=n, A=2, E=E, ds=2 if n >= 3 else 1, da=2, de=1, offset=job["off"], prob_array=(n % 2 == 1), bs=job["bs"])


def support_ok(term, i, names_allowed_prefix):
    fv = zx.free_vars(term) if zx.is_z(term) else set()
    bad = [v for v in fv if (v.startswith(("T_", "R_", "P_", "V0_")) and not v.startswith(names_allowed_prefix))]
    return not bad, bad


def run_job(job):
    ob = Obligations(job)
    cfg = cfg_of(job)
    n, A, E = cfg["S"], cfg["A"], cfg["E"]
    seed = job.get("seed", 0)
    if not job.get("real_only"):
        _symbolic_leg(ob, job, cfg)
    _real_leg(ob, job, cfg)
    return ob.result()


def _symbolic_leg(ob, job, cfg):
    n, A, E = cfg["S"], cfg["A"], cfg["E"]
    pb = kit.make_tab(cfg, job.get("seed", 0))
    ex = pathx.Explorer()
    holder = {}

    def run():
        with symbolic():
            L = kit.Lifted(pb, lift_V0=True)
            holder["L"] = L
            pathx.CUR.assume(z3.And(*L.pre))
            # another solver with a different partition built earlier on the same Problem instance must not matter
            kit.make_solver("vi", pb, max_batch_size=job["bs"] + 3)
            vi = kit.make_solver("vi", pb, max_batch_size=job["bs"])
            init = val_of(vi.values)
            vi.values = sym("V", (n,))
            vi.gamma = sym("gamma")
            new = vi._update_values(vi.batched_states, pb.action_space, pb.random_event_space, vi.gamma, vi.values)
            pol = vi._extract_policy()
            pi = kit.make_solver("pi", pb, max_batch_size=job["bs"], max_eval_iter=1)
            pi.gamma = vi.gamma
            policy = sym("PI", (n, cfg["da"]), "int")
            asp = np.asarray(pb.action_space)
            for k in range(asp.shape[1]):
                for t in policy.val[:, k]:
                    pathx.CUR.assume(zx.declare_bounds(t, int(asp[:, k].min()), int(asp[:, k].max())))
            pv = pi._calculate_policy_values(policy, vi.values)
            sa = kit.make_solver("savi", pb, max_batch_size=job["bs"])
            sa.gamma = vi.gamma
            sv = sa._update_values(sa.batched_states, pb.action_space, pb.random_event_space, sa.gamma, vi.values)
            # the convergence measures are functions of two full-length value vectors: they must not depend on the partition either
            W = sym("W", (n,))
            meas = dict(span=val_of(vi._get_span(W, vi.values)).reshape(())[()], max_diff=val_of(vi._get_max_diff(W, vi.values)).reshape(())[()],
                        span_savi=val_of(sa._get_span(W, vi.values)).reshape(())[()], W=val_of(W))
            return dict(meas=meas, init=init, new=val_of(new), pol=val_of(pol), pv=val_of(pv), sv=val_of(sv), V=val_of(vi.values),
                        gamma=val_of(vi.gamma)[()], policy=val_of(policy), shape=list(vi.batch_processor.batch_shape) + [vi.n_pad],
                        aspace=asp)
    with shadowed():
        outs = list(ex.explore(run))
    for o in outs:
        if o.exc is not None:
            from ..harness import exc_origin
            if exc_origin(o.exc) == "harness":
                ob.fail_harness(f"harness raised: {o.exc!r}")
                continue
            ob.fail_harness(f"real code raised under symbolic execution: {o.exc!r}")
            continue
        r = o.value
        L = holder["L"]
        pre = o.pc
        ob.extra["batch_shape"] = [r["shape"]]
        ob.reach("path", pre)
        V, g = r["V"], r["gamma"]
        B = kit.bellman(L, V, g)
        Q = kit.q_values(L, V, g)

        def cexf(kind, i):
            def f(m):
                return dict(kind=kind, state=i, cfg=cfg, devices=job["devices"], T=kit.model_array(m, L.T), R=kit.model_array(m, L.R),
                            P=kit.model_array(m, L.P), V=kit.model_array(m, V), gamma=zx.model_value(m, g),
                            V0=kit.model_array(m, L.V0), policy=kit.model_array(m, r["policy"]))
            return f
        from ..stubs.common import maxdiff_terms, span_terms
        Wv = r["meas"]["W"]
        mcex = lambda m: dict(kind="measure", state=0, cfg=cfg, devices=job["devices"], V=kit.model_array(m, V), W=kit.model_array(m, Wv))
        ob.prove("span-measure", pre, zx.eq(r["meas"]["span"], span_terms(list(Wv), list(V))), cex=mcex, kind="span measure == max - min of the whole difference vector")
        ob.prove("span-measure-savi", pre, zx.eq(r["meas"]["span_savi"], span_terms(list(Wv), list(V))), cex=mcex, kind="span measure == max - min of the whole difference vector")
        ob.prove("max_diff-measure", pre, zx.eq(r["meas"]["max_diff"], maxdiff_terms(list(Wv), list(V))), cex=mcex, kind="max_diff measure == max |difference|")
        ob.prove("output-lengths", [], r["new"].shape == (n,) and r["init"].shape == (n,) and r["pol"].shape == (n, cfg["da"])
                 and r["pv"].shape == (n,) and r["sv"].shape == (n,), cex=lambda m: dict(kind="shape", cfg=cfg, devices=job["devices"]),
                 kind="every returned array has length n_states")
        scaled = list(np.asarray(L.R, dtype=object).flat) + list(V) + list(L.V0)
        unit = list(np.asarray(L.P, dtype=object).flat) + [g]
        for i in range(n):
            ob.prove(f"init[{i}]", pre, zx.eq(r["init"][i], L.V0[i]), cex=cexf("init", i), kind="initial values == initial_value(state)")
            ob.prove(f"sweep[{i}]", pre, zx.eq(r["new"][i], B[i]), cex=cexf("sweep", i), kind="VI sweep == partition-free Bellman backup",
                     margin=(r["new"][i], B[i], scaled, unit))
            member, idx = kit.policy_row_index(list(r["pol"][i]), r["aspace"])
            ob.prove(f"policy[{i}]", pre, zx.land(member, zx.eq(kit.lookup(Q[i], idx), B[i])), cex=cexf("policy", i),
                     kind="extracted policy greedy (partition-free)", margin=(kit.lookup(Q[i], idx), B[i], scaled, unit))
            m2, pidx = kit.policy_row_index(list(r["policy"][i]), r["aspace"])
            ob.prove(f"policy-eval[{i}]", pre + ([m2] if zx.is_z(m2) else []), zx.eq(r["pv"][i], kit.lookup(Q[i], pidx)), cex=cexf("policy_eval", i),
                     kind="PI evaluation step == T_pi (partition-free)")
            for nm, term in (("sweep", r["new"][i]), ("policy-eval", r["pv"][i])):
                ok, bad = support_ok(term, i, (f"T_{i}_", f"R_{i}_", f"P_{i}_"))
                ob.prove(f"no-leak-{nm}[{i}]", [], ok, cex=cexf("leak", i), kind="a state's value mentions only its own table rows (no padded-slot leak)")
            ok, bad = support_ok(r["init"][i], i, (f"V0_{i}",))
            ob.prove(f"no-leak-init[{i}]", [], ok, cex=cexf("leak", i), kind="a state's value mentions only its own table rows (no padded-slot leak)")


def numpy_reference(T, R, P, V0, g, sweeps):
    v = V0.copy()
    for _ in range(sweeps):
        v = (P * (R + g * v[T])).sum(-1).max(-1)
    return v


def numpy_solver(name, T, R, P, V0, g, eps, kmax, period=2):
    """independent numpy loop with the documented stop rule -> (values, iteration)"""
    v, gain, it = V0.copy(), float(V0[-1]), 0
    hist = [V0.copy()]
    thr = eps if (name in ("rvi", "pvi") or g == 1) else eps * (1 - g) / g
    for _ in range(kmax):
        nv = (P * (R + g * v[T])).sum(-1).max(-1)
        if name == "rvi":
            nv = nv - gain
            gain = nv[-1]
        it += 1
        hist.append(nv.copy())
        if name == "pvi":
            if it < period:
                m = np.inf
            else:
                d = sum((hist[j] - hist[j - 1]) / g ** (j - 1) for j in range(it - period + 1, it + 1))
                m = d.max() - d.min()
        else:
            d = nv - v
            m = d.max() - d.min()
        v = nv
        if m < thr:
            break
    return v, it


def _real_leg(ob, job, cfg):
    """Concrete runs of the real solvers on the emulated devices (<= 3 sweeps) vs an independent numpy loop."""
    n = cfg["S"]
    pb = kit.make_tab(cfg, job.get("seed", 0) + 1)
    T = np.asarray(jax.vmap(jax.vmap(jax.vmap(pb.state_to_index)))(pb.T))
    R, P, V0 = np.asarray(pb.R), np.asarray(pb.P), np.asarray(pb.V0)
    cex = dict(kind="realrun", cfg=cfg, devices=job["devices"], seed=job.get("seed", 0) + 1)
    for name in ("vi", "savi", "pi", "rvi", "pvi"):
        ok, why = real_run_ok(name, pb, cfg, T, R, P, V0)
        ob.prove(f"real-run[{name}]", [], ok, cex=lambda m, name=name, why=why: dict(cex, solver=name, why=why),
                 kind="real solver runs <=3 sweeps on the emulated devices and matches an independent numpy loop")
    ob.extra["real_runs"] = 5


def real_run_ok(name, pb, cfg, T, R, P, V0):
    n = cfg["S"]
    g = 1.0 if name == "rvi" else 0.9
    try:
        kit.make_solver(name, pb, max_batch_size=cfg["bs"] + 3, epsilon=1e-3)   # an earlier solver with another partition on the same Problem
        s = kit.make_solver(name, pb, max_batch_size=cfg["bs"], epsilon=1e-3)
        st = s.solve(3)
        vals = np.asarray(st.values)
        if vals.shape != (n,) or np.asarray(st.policy).shape != (n, cfg["da"]):
            return False, f"shapes {vals.shape} {np.asarray(st.policy).shape}"
        if name in ("vi", "pvi", "rvi"):
            ref, it = numpy_solver(name, T, R, P, V0, g, 1e-3, 3)
            if it != st.info.iteration or not np.allclose(vals, ref, rtol=1e-9, atol=1e-9):
                return False, f"iteration {st.info.iteration} values {vals} vs reference iteration {it} values {ref}"
    except Exception as e:  # "the same for every number of devices" cannot hold if the run fails
        return False, f"{type(e).__name__}: {' '.join(str(e).split())[:160]}"
    return True, ""


def finding_key(v):
    c = v.get("cex") or {}
    if c.get("kind") == "realrun":
        return f"realrun:{'raise' if 'Error' in str(c.get('why')) else 'mismatch'}:npad{'0' if _npad(c) == 0 else '+'}:dev{'1' if c.get('devices') == 1 else 'N'}"
    return v["obligation"].split("[")[0]


def _npad(c):
    from mdpax.utils.batch_processing import BatchProcessor
    cfg = c["cfg"]
    return BatchProcessor(cfg["S"], cfg["ds"], cfg["bs"], c["devices"]).n_pad


def replay(data):
    c = unq(data["cex"])
    job = data["job"]
    cfg = c["cfg"]
    if len(jax.devices()) != c.get("devices", 1):
        return False, f"replay needs {c.get('devices')} emulated devices, have {len(jax.devices())}"
    if c["kind"] == "realrun":
        pb = kit.make_tab(cfg, c["seed"])
        name = c["solver"]
        T = np.asarray(jax.vmap(jax.vmap(jax.vmap(pb.state_to_index)))(pb.T))
        ok, why = real_run_ok(name, pb, cfg, T, np.asarray(pb.R), np.asarray(pb.P), np.asarray(pb.V0))
        return (not ok), (f"{name} on {c['devices']} device(s), n_states={cfg['S']}, max_batch_size={cfg['bs']} "
                          f"(devices x batches x batch_size + pad = {_shape(cfg, c)}): {why or 'agrees with numpy'}")
    from ..tab import Tab
    if c["kind"] == "measure":
        V, W = (np.array(tofloat(c[k]), dtype=float) for k in ("V", "W"))
        pb = kit.make_tab(cfg, 0)
        msgs = []
        for name in ("vi", "savi"):
            s = kit.make_solver(name, pb, max_batch_size=cfg["bs"])
            d = W - V
            got = (float(s._get_span(jnp.asarray(W), jnp.asarray(V))), float(s._get_max_diff(jnp.asarray(W), jnp.asarray(V))))
            want = (float(d.max() - d.min()), float(np.abs(d).max()))
            if not np.allclose(got, want, rtol=1e-12, atol=0):
                msgs.append(f"{name}: (span, max_diff) = {got}, whole-vector reference {want}")
        return bool(msgs), "; ".join(msgs) or "measures agree with the whole-vector reference"
    T = np.array(c["T"], dtype=np.int64)
    R, P, V = (np.array(tofloat(c[k]), dtype=float) for k in ("R", "P", "V"))
    V0 = np.array(tofloat(c["V0"]), dtype=float)
    g = float(c["gamma"])
    pb = Tab(cfg["S"], cfg["A"], cfg["E"], ds=cfg["ds"], da=cfg["da"], de=cfg["de"], offset=cfg["offset"], prob_array=cfg["prob_array"],
             T=T, R=R, P=P, V0=V0)
    Q = (P * (R + g * V[T])).sum(-1)
    B = Q.max(-1)
    i = c["state"]
    tol = kit.REPLAY_RTOL * max(np.abs(R).max(), np.abs(V).max(), 1e-300)
    if c["kind"] in ("sweep", "policy", "init", "leak", "shape"):
        s = kit.make_solver("vi", pb, max_batch_size=cfg["bs"])
        init = np.asarray(s.values)
        new = np.asarray(s._update_values(s.batched_states, pb.action_space, pb.random_event_space, jnp.asarray(g), jnp.asarray(V)))
        s.values, s.gamma = jnp.asarray(V), jnp.asarray(g)
        pol = np.asarray(s._extract_policy())
        asp = np.asarray(pb.action_space)
        rows = [[k for k in range(len(asp)) if np.array_equal(asp[k], pol[j])] for j in range(len(pol))]
        bad = (new.shape != B.shape or not np.allclose(new, B, atol=tol) or not np.allclose(init, V0, atol=1e-12)
               or any(not r_ for r_ in rows) or any(abs(Q[j, rows[j][0]] - B[j]) > tol for j in range(len(rows)) if rows[j]))
        return bool(bad), f"sweep {new} vs {B}; init {init} vs {V0}; policy rows {rows}"
    s = kit.make_solver("pi", pb, max_batch_size=cfg["bs"], max_eval_iter=1)
    s.gamma = jnp.asarray(g)
    policy = np.array(c["policy"], dtype=np.int32)
    pv = np.asarray(s._calculate_policy_values(jnp.asarray(policy), jnp.asarray(V)))
    asp = np.asarray(pb.action_space)
    idx = [int(np.where((asp == policy[j]).all(1))[0][0]) for j in range(len(policy))]
    ref = np.array([Q[j, idx[j]] for j in range(len(idx))])
    return bool(not np.allclose(pv, ref, atol=tol)), f"policy evaluation step {pv} vs T_pi {ref}"


def _shape(cfg, c):
    from mdpax.utils.batch_processing import BatchProcessor
    bp = BatchProcessor(cfg["S"], cfg["ds"], cfg["bs"], c["devices"])
    return list(bp.batch_shape) + [bp.n_pad]

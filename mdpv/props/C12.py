"""C12 - checkpoint cadence and retention follow frequency and max_checkpoints."""
from __future__ import annotations

import os
import shutil
import tempfile

import jax
import jax.numpy as jnp
import numpy as np
import z3

from .. import ckkit, kit, pathx, zx
from ..harness import Obligations, unq
from ..stubs import orbax_model as om
from ..trace import lift, sym, symbolic, val_of
from .C08 import shadowed

ID = "C12"
LEVEL = "model_checking"
FUNCTIONS = ["ValueIteration.solve (save sites)", "RelativeValueIteration.solve", "PeriodicValueIteration.solve", "SemiAsyncValueIteration.solve",
             "PolicyIteration.solve", "CheckpointMixin.save/_setup_checkpointing/is_checkpointing_enabled/has_full_config/_create_checkpoint_manager/"
             "_save_solver_config/restore", "solver_state properties"]
RULE = ("One job per (solver, frequency f, retention m, sync/async, sequence of solve limits with an optional restore into the same or a new "
        "directory, problem with/without configuration). Sweeps are uninterpreted, convergence outcomes symbolic: every host path is explored and "
        "the model store is inspected after pending writes have finished.")
ASSUMPTIONS = [
    "Orbax is replaced by the contract model mdpv/stubs/orbax_model.py (validated against the real library on disk in the 'model' job: "
    "committed steps, retention, silently skipped duplicate steps, restored contents)",
    "sweeps abstracted by uninterpreted functions (cadence/retention/labelling are about counting and state threading)",
    "restores use the default (latest) step; Hydra/OmegaConf and the config.yaml file are real (temporary directory)",
    "limits k <= 3 per call, f in 1..3, m in 1..3",
]
OUTSIDE = "restore of an explicitly chosen older step into the same directory (Orbax skips steps <= latest); f > 3, m > 3, k > 3"
EXPLANATION = "real solve()/save()/restore() under the path explorer with the Orbax contract model"
JOB_TIMEOUT = {"quick": 2400, "thorough": 7200}


def bounds(tier):
    return {"solvers": ["vi", "pi", "rvi", "pvi", "savi"], "f": [1, 2, 3], "m": [1, 2, 3], "async": [True, False],
            "sequences": "[k], [k1,k2], [k1,restore same dir,k2], [k1,restore new dir,k2] with k<=3" + (" (quick: subset)" if tier == "quick" else "")}


def jobs(tier, seed):
    out = [dict(name="model-vs-real-orbax", kind="model", devices=1, cost=50), dict(name="f0-no-directory", kind="f0", devices=1, cost=5)]
    for solver in ("vi", "pi", "rvi", "pvi", "savi"):
        out.append(dict(name=f"nonfinite-{solver}", kind="nonfinite", solver=solver, devices=1, seed=seed, cost=20))
        out.append(dict(name=f"config-presence-{solver}", kind="cfgpresence", solver=solver, devices=1, seed=seed, cost=20))
    # a KeyboardInterrupt arriving in the j-th sweep of a call (["int", k, j]): whatever is on disk afterwards is still labelled
    # with, and contains, the state of a completed iteration
    for solver in (("vi", "rvi") if tier == "quick" else ("vi", "pi", "rvi", "pvi", "savi")):
        for (f, m) in ((1, 2), (2, 2)):
            for seq in ([["int", 3, 2]], [2, ["int", 2, 1]], [["int", 2, 2], 2]):
                out.append(dict(name=f"{solver}-f{f}-m{m}-sync-interrupt-{'+'.join(str(x) if isinstance(x, int) else 'int%d@%d' % (x[1], x[2]) for x in seq)}", kind="cadence",
                                solver=solver, f=f, m=m, async_=False, seq=seq, problem="forest", devices=1, seed=seed, cost=6))
    seqs = [[3], [2, 2], [2, "same", 2], [1, "new", 3]] if tier == "quick" else \
        [[1], [2], [3], [1, 1], [2, 2], [3, 1], [1, 3], [2, "same", 2], [3, "same", 1], [1, "new", 3], [2, "new", 2], [1, "same", 1, "new", 2]]
    combos = [(1, 1), (2, 1), (2, 2), (3, 2), (2, 3)] if tier == "quick" else [(f, m) for f in (1, 2, 3) for m in (1, 2, 3)]
    for solver in ("vi", "pi", "rvi", "pvi", "savi"):
        for (f, m) in combos:
            for async_ in (True, False):
                for seq in seqs:
                    if tier == "quick" and (solver != "vi") and (async_ is False or seq not in ([2, 2], [2, "same", 2])) and not (solver == "rvi" and seq == [3]):
                        continue
                    needs_cfg = any(isinstance(x, str) for x in seq)
                    for kind in (("forest",) if needs_cfg else ("forest", "tab")):
                        if kind == "tab" and (tier == "quick" and (f, m) != (2, 2)):
                            continue
                        out.append(dict(name=f"{solver}-f{f}-m{m}-{'async' if async_ else 'sync'}-{'+'.join(map(str, seq))}-{kind}", kind="cadence",
                                        solver=solver, f=f, m=m, async_=async_, seq=seq, problem=kind, devices=1, seed=seed,
                                        cost=sum(x for x in seq if isinstance(x, int))))
    return out


def run_job(job):
    ob = Obligations(job)
    if job["kind"] == "model":
        scheds = []
        for m in (1, 2, 3):
            for a in (True, False):
                for steps in ([1, 2, 3, 4], [2, 4, 4], [1, 1], [3, 2, 5], [5, 5, 6, 6, 7], [2, 4, 6, 7, 7], [1], [2, 3, 3, 4]):
                    scheds.append(dict(max_to_keep=m, async_=a, steps=steps))
        problems = om.validate_against_real_orbax(scheds, tempfile.gettempdir())
        ob.extra["orbax_schedules"] = len(scheds)
        if problems:
            ob.fail_harness("Orbax model disagrees with the real library: " + "; ".join(problems[:3]))
        ob.prove("model==real-orbax", [], not problems)
        return ob.result()
    if job["kind"] == "f0":
        return run_f0(job, ob)
    if job["kind"] == "nonfinite":
        return run_nonfinite(job, ob)
    if job["kind"] == "cfgpresence":
        return run_cfgpresence(job, ob)
    return run_cadence(job, ob)


def run_cfgpresence(job, ob):
    """config.yaml is written exactly when solver and problem can be rebuilt from configuration - for every way of
    combining problem instances and configuration objects (real Orbax, concrete)"""
    import dataclasses
    from mdpax.problems import Forest
    name = job["solver"]
    cls = kit.solver_class(name)
    base = tempfile.mkdtemp(prefix="mdpv-cfgp-")
    extra = dict(period=2) if name == "pvi" else {}
    g = 1.0 if name == "rvi" else 0.9
    try:
        def run(tag, problem, config=None):
            d = os.path.join(base, tag)
            if config is None:
                s = cls(problem, gamma=g, checkpoint_dir=d, checkpoint_frequency=1, max_checkpoints=2, enable_async_checkpointing=False, verbose=0, **extra)
            else:
                config = dataclasses.replace(config, checkpoint_dir=d)
                s = cls(problem=problem, config=config)
            s.solve(2)
            return s, os.path.exists(os.path.join(d, "config.yaml")), (sorted(p for p in os.listdir(d) if p.isdigit()), [str(i) for i in range(1, s.iteration + 1)][-2:])
        cases = []
        s1, has1, steps1 = run("builtin-kwargs", Forest(S=4))
        cases.append(("builtin-kwargs", has1, True, steps1))
        _, has2, steps2 = run("custom-kwargs", ckkit.make_problem("tab"))
        cases.append(("custom-kwargs", has2, False, steps2))
        # a configuration object that already describes a built-in problem, used with a problem that has no configuration
        _, has3, steps3 = run("custom-with-config-naming-a-builtin", ckkit.make_problem("tab"), s1.config)
        cases.append(("custom-with-config-naming-a-builtin", has3, False, steps3))
        _, has4, steps4 = run("builtin-with-reused-config", Forest(S=5), s1.config)
        cases.append(("builtin-with-reused-config", has4, True, steps4))
        for tag, has, want, steps in cases:
            ob.prove(f"config.yaml-iff-reconstructible[{tag}]", [], has == want, cex=lambda m, tag=tag: dict(kind="cfgpresence", solver=name, case=tag),
                     kind="config.yaml present exactly when solver+problem are reconstructible from configuration")
            ob.prove(f"steps-written[{tag}]", [], steps[0] == steps[1], cex=lambda m, tag=tag: dict(kind="cfgpresence", solver=name, case=tag),
                     kind="retained steps == the m most recent of {multiples of f} U {last iteration} (configuration combinations)")
    finally:
        shutil.rmtree(base, ignore_errors=True)
    return ob.result()


def nonfinite_problem(seed):
    """an absorbing infeasible state with reward -inf: its value is -inf from the first sweep on (concrete leg: the
    symbolic legs range over real-valued states only)"""
    from ..tab import Tab
    T, R, P, V0 = kit.rand_tables(3, 2, 1, seed)
    T = np.array(T)
    R = np.array(R, dtype=float)
    T[0] = 0
    R[0] = -np.inf
    return Tab(3, 2, 1, T=T, R=R, P=P)


def run_nonfinite(job, ob):
    name = job["solver"]
    base = tempfile.mkdtemp(prefix="mdpv-nonfinite-")
    try:
        for (f, m, async_, N) in ((1, 2, True, 3), (2, 2, False, 5)):
            d = os.path.join(base, f"ck{f}{m}")
            s = ckkit.make_solver(name, nonfinite_problem(job.get("seed", 0)), ckdir=d, f=f, m=m, async_=async_, epsilon=1e-9)
            held = {}
            orig = s.save

            def save(step, s=s, held=held, orig=orig):
                held[step] = (int(s.iteration), np.array(s.values))
                return orig(step)
            s.save = save
            s.solve(N)
            s.checkpoint_manager.wait_until_finished()
            cex = lambda mm, f=f, m=m, async_=async_, N=N: dict(kind="nonfinite", solver=name, f=f, m=m, async_=async_, N=N)
            end = int(s.iteration)
            want = sorted({i for i in range(1, end + 1) if i % f == 0} | {end})[-m:]
            got = sorted(int(p) for p in os.listdir(d) if p.isdigit()) if os.path.isdir(d) else []
            ob.prove(f"nonfinite-values-present[f{f}]", [], bool(np.isinf(np.asarray(s.values)).any() or np.isnan(np.asarray(s.values)).any()), cex=cex,
                     kind="scenario reaches a state with non-finite values (reachability)")
            ob.prove(f"retained==m-most-recent[nonfinite,f{f},m{m}]", [], got == want, cex=cex,
                     kind="retained steps == the m most recent of {multiples of f} U {last iteration} (non-finite values)")
            for step in got:
                chk = ckkit.make_solver(name, nonfinite_problem(job.get("seed", 0)))
                chk.load_checkpoint(d, step=step)
                ok = chk.iteration == step and step in held and np.array_equal(np.asarray(chk.values), held[step][1], equal_nan=True)
                ob.prove(f"step-content[nonfinite,f{f},step{step}]", [], bool(ok), cex=cex, kind="retained step contains the solver state of that iteration (non-finite values)")
    finally:
        shutil.rmtree(base, ignore_errors=True)
    return ob.result()


def run_f0(job, ob):
    base = tempfile.mkdtemp(prefix="mdpv-f0-")
    try:
        for name in ("vi", "pi", "rvi", "pvi", "savi"):
            d = os.path.join(base, name, "ckpt")
            with om.installed() as store:
                pb = ckkit.make_problem("forest")
                s = ckkit.make_solver(name, pb, ckdir=d, f=0, m=2)
                s.solve(2)
                ok = (not os.path.exists(d)) and s.checkpoint_manager is None and not store.dirs and not s.is_checkpointing_enabled \
                    and not any(e[0] == "manager" for e in store.log)
                ob.prove(f"f=0-writes-nothing[{name}]", [], ok, cex=lambda m, name=name: dict(kind="f0", solver=name),
                         kind="frequency 0: no manager, no directory, nothing written")
    finally:
        shutil.rmtree(base, ignore_errors=True)
    return ob.result()


def scenario(job, dirs):
    """returns dict(calls=[(dir, start, end)], stores={dir: {step: snapshot}}, ref={i: state}, config={dir: exists})"""
    name, f, m, async_ = job["solver"], job["f"], job["m"], job["async_"]
    pb = ckkit.make_problem(job["problem"], job.get("seed", 0))
    ab = ckkit.Abstraction()
    V0 = sym("V0", (ckkit.NS,))

    def init(s):
        s.values = V0
        if name == "rvi":
            s.gain = lift(V0.val[ckkit.NS - 1])
        if name == "pvi":
            s.value_history[0] = V0
    total = sum(x if isinstance(x, int) else (x[2] - 1 if isinstance(x, (list, tuple)) else 0) for x in job["seq"])
    # uninterrupted reference without checkpointing, one iteration at a time
    ref = ckkit.make_solver(name, ckkit.make_problem(job["problem"], job.get("seed", 0)))
    init(ref)
    ab.attach(ref, name, "ref")
    refstates = {0: ckkit.state_of(ref)}
    d = dirs.new()
    s = ckkit.make_solver(name, pb, ckdir=d, f=f, m=m, async_=async_)
    init(s)
    ab.attach(s, name, "run")
    calls = []
    cur = d
    for x in job["seq"]:
        if isinstance(x, str):
            s.checkpoint_manager.wait_until_finished()
            cls = type(s)
            if x == "new":
                nd = dirs.new()
                s = cls.restore(cur, new_checkpoint_dir=nd)
                cur = nd
            else:
                s = cls.restore(cur)
            ab.attach(s, name, "run")
            continue
        start = s.iteration
        if isinstance(x, (list, tuple)):
            ist = interrupt_at(s, x[2])
            try:
                s.solve(x[1])
                aborted = False
            except KeyboardInterrupt:
                aborted = True
            del s._iteration_step
            if not ist["fired"]:       # the call converged before the sweep that was to be interrupted
                calls.append((cur, start, s.iteration))
                continue
            # in memory the counter has been advanced for the sweep that never completed; what matters is the directory
            end = start + x[2] - 1
            calls.append((cur, start, end, "aborted" if aborted else "not-aborted"))
            s.iteration = end
            continue
        s.solve(x)
        calls.append((cur, start, s.iteration))
    s.checkpoint_manager.wait_until_finished()
    stores = {k: dict(v["committed"]) for k, v in om.Store.dirs.items()}
    # reference states for every completed iteration and for every label found on disk (a label beyond the completed
    # iterations is compared with the state that iteration would have)
    last = max([c[2] for c in calls] + [int(st_) for v in stores.values() for st_ in v])
    while ref.iteration < last:
        ref.solve(1)
        refstates[ref.iteration] = ckkit.state_of(ref)
    return dict(calls=calls, stores=stores, ref=refstates, config={k: os.path.exists(os.path.join(k, "config.yaml")) for k in stores},
                has_full_config=s.has_full_config, V0=val_of(V0))


def interrupt_at(s, j):
    """the j-th sweep of the next solve() call is interrupted (KeyboardInterrupt raised where the sweep starts)"""
    orig = s._iteration_step
    n = [0]
    st = {"fired": False}

    def step(*a, **k):
        n[0] += 1
        if n[0] == j:
            st["fired"] = True
            raise KeyboardInterrupt()
        return orig(*a, **k)
    s._iteration_step = step
    return st


def run_cadence(job, ob):
    f, m = job["f"], job["m"]
    dirs = ckkit.TempDirs()
    ex = pathx.Explorer(max_paths=300)

    def run():
        with symbolic():
            with om.installed():
                return scenario(job, dirs)
    try:
        with shadowed():
            outs = list(ex.explore(run))
    finally:
        dirs.cleanup()
    ob.extra["paths"] = len(outs)
    for pi_, o in enumerate(outs):
        if o.exc is not None:
            from ..harness import exc_origin
            if exc_origin(o.exc) == "harness":
                ob.fail_harness(f"harness raised: {o.exc!r}")
                continue
            ob.prove(f"no-exception[path{pi_}]", o.pc, False, cex=lambda mm, o=o: dict(kind="exc", exc=repr(o.exc)))
            continue
        r = o.value
        ob.reach(f"path{pi_}", o.pc)
        cex = lambda mm, r=r: dict(kind="cadence", calls=[[c[1], c[2]] for c in r["calls"]], retained={k: sorted(v) for k, v in r["stores"].items()})
        # expected steps per directory
        expect = {}
        for call in r["calls"]:
            d, start, end = call[:3]
            if len(call) > 3:   # interrupted call: the periodic saves of its completed sweeps, no final save
                ob.prove(f"interrupt-propagates[path{pi_}]", [], call[3] == "aborted", cex=cex, kind="KeyboardInterrupt is not swallowed")
                expect.setdefault(d, set()).update({i for i in range(start + 1, end + 1) if i % f == 0})
            else:
                expect.setdefault(d, set()).update({i for i in range(start + 1, end + 1) if i % f == 0} | {end})
        for d, steps in expect.items():
            retained = sorted(r["stores"].get(d, {}))
            want = sorted(steps)[-m:]
            ob.prove(f"retained==m-most-recent[path{pi_}]", [], retained == want, cex=cex,
                     kind="retained steps == the m most recent of {multiples of f} U {last iteration of each call}")
            completed = [c for c in r["calls"] if c[0] == d and len(c) == 3]
            if completed and len(r["calls"][-1]) == 3:
                ob.prove(f"last-iteration-retained[path{pi_}]", [], max(c[2] for c in completed) in retained, cex=cex,
                         kind="last iteration of the most recent call is retained")
            ob.prove(f"config-file-iff-reconstructible[path{pi_}]", [], r["config"].get(d, False) == (job["problem"] == "forest") == r["has_full_config"], cex=cex,
                     kind="config.yaml present exactly when solver+problem are reconstructible from configuration")
            for step in retained:
                snap = r["stores"][d][step]
                st = dict(iteration=snap.info.iteration, values=list(val_of(snap.values)))
                ob.prove(f"label==iteration[path{pi_},step{step}]", [], st["iteration"] == step, cex=cex, kind="step label == iteration stored inside")
                rs = r["ref"][step]
                for i in range(ckkit.NS):
                    ob.prove(f"content==state-of-that-iteration[path{pi_},step{step},{i}]", o.pc, zx.eq(st["values"][i], rs["values"][i]), cex=cex,
                             kind="retained step contains the solver state of that iteration")
                if hasattr(snap.info, "gain"):
                    g = snap.info.gain
                    ob.prove(f"content-gain[path{pi_},step{step}]", o.pc, zx.eq(zx.from_np_scalar(g) if isinstance(g, float) else val_of(g).reshape(())[()], rs["gain"]), cex=cex,
                             kind="retained step contains the solver state of that iteration")
                if hasattr(snap.info, "history_index"):
                    ob.prove(f"content-history-index[path{pi_},step{step}]", [], snap.info.history_index == rs["history_index"], cex=cex,
                             kind="retained step contains the solver state of that iteration")
                    vh = snap.info.value_history
                    for ri, row in enumerate(vh.rows):
                        for i in range(ckkit.NS):
                            ob.prove(f"content-history[path{pi_},step{step},{ri},{i}]", o.pc, zx.eq(val_of(row)[i], rs["value_history"][ri][i]), cex=cex,
                                     kind="retained step contains the solver state of that iteration")
        # original directory untouched by a restore into a new directory
    return ob.result()


def finding_key(v):
    return f"{v['job'].get('solver')}:{v['obligation'].split('[')[0]}"


def replay(data):
    """Replay on the real Orbax on disk with a concrete problem: same solver, f, m, mode and call sequence; the
    run is forced not to converge (tiny epsilon) so the call boundaries are the limits."""
    import time
    c = unq(data["cex"]) or {}
    job = data["job"]
    if c.get("kind") == "exc":
        # an exception seen under the model is only a finding if the real library raises too
        try:
            ok, msg = replay(dict(data, cex=dict(kind="cadence", calls=[])))
            return ok, "no exception with the real Orbax; " + msg
        except Exception as ex:
            return True, f"real run raised {type(ex).__name__}: {ex}"
    if job["kind"] == "cfgpresence":
        ob2 = Obligations(job)
        run_cfgpresence(job, ob2)
        bad = [v["obligation"] for v in ob2.violations]
        return bool(bad), f"{job['name']}: failing {bad}" if bad else f"{job['name']}: as documented"
    if job["kind"] == "nonfinite":
        ob2 = Obligations(job)
        run_nonfinite(job, ob2)
        bad = [v["obligation"] for v in ob2.violations]
        return bool(bad), f"{job['name']}: failing {bad}" if bad else f"{job['name']}: as documented"
    if job["kind"] == "f0":
        base = tempfile.mkdtemp(prefix="mdpv-f0-")
        try:
            d = os.path.join(base, "x", "ckpt")
            s = ckkit.make_solver(c["solver"], ckkit.make_problem("forest"), ckdir=d, f=0, m=2)
            s.solve(2)
            return os.path.exists(d) or s.checkpoint_manager is not None, f"f=0: directory exists={os.path.exists(d)} manager={s.checkpoint_manager}"
        finally:
            shutil.rmtree(base, ignore_errors=True)
    if job.get("async_") and not data.get("_slow"):
        # two schedules: writes as fast as the disk allows, and writes that are still in flight when the next sweeps end
        ok1, msg1 = replay(dict(data, _slow="fast"))
        if ok1:
            return ok1, msg1
        with ckkit.slow_commits():
            ok2, msg2 = replay(dict(data, _slow="slow"))
        return ok2, (msg2 + " [schedule: background commits delayed by 0.25 s]" if ok2 else msg1)
    name, f, m = job["solver"], job["f"], job["m"]
    # convergence pattern of the counterexample path: a call that ended before its limit ended by convergence
    limits = [x if isinstance(x, int) else x[1] for x in job["seq"] if not isinstance(x, str)]
    intr = [not isinstance(x, int) for x in job["seq"] if not isinstance(x, str)]
    conv_at = {int(e) for (st, e), k, ii in zip(c.get("calls", []), limits, intr) if int(e) - int(st) < k and not ii}
    dirs = ckkit.TempDirs()
    try:
        d = dirs.new()
        s = ckkit.make_solver(name, ckkit.make_problem(job["problem"]), ckdir=d, f=f, m=m, async_=job["async_"], epsilon=1e-3)
        expected_values = {}

        def force(s):
            def upd(bs, a, e, g, v, s=s):
                v = np.asarray(v)
                out = v + 1.0 if s.iteration in conv_at else v * 0.5 + (np.arange(len(v)) + 1.0) * 10.0 * s.iteration
                return jnp.asarray(out)
            s._update_values = upd
            if name == "pi":
                s._calculate_policy_values = lambda policy, values, s=s: jnp.asarray(np.asarray(values) * 0.5 + s.iteration)
                s._extract_policy = lambda *a, s=s, **k: (s.policy if s.iteration in conv_at else (jnp.asarray(s.policy) + 1) % 2)
            else:
                s._extract_policy = lambda *a, **k: jnp.zeros((ckkit.NS, 1), dtype=jnp.int32)
        force(s)
        calls, cur = [], d
        for x in job["seq"]:
            if isinstance(x, str):
                s.checkpoint_manager.wait_until_finished()
                cls = type(s)
                if x == "new":
                    nd = dirs.new()
                    s = cls.restore(cur, new_checkpoint_dir=nd)
                    cur = nd
                else:
                    s = cls.restore(cur)
                force(s)
                continue
            start = s.iteration
            if isinstance(x, (list, tuple)):
                ist = interrupt_at(s, x[2])
                try:
                    s.solve(x[1])
                    swallowed = True
                except KeyboardInterrupt:
                    swallowed = False
                del s._iteration_step
                s.checkpoint_manager.wait_until_finished()
                if not ist["fired"]:
                    calls.append((cur, start, s.iteration))
                    continue
                end = start + x[2] - 1
                calls.append((cur, start, end, swallowed))
                s.iteration = end
                continue
            s.solve(x)
            calls.append((cur, start, s.iteration))
        s.checkpoint_manager.wait_until_finished()
        bad = []
        expect = {}
        for call in calls:
            dd, start, end = call[:3]
            if len(call) > 3:
                if call[3]:
                    bad.append("KeyboardInterrupt swallowed")
                expect.setdefault(dd, set()).update({i for i in range(start + 1, end + 1) if i % f == 0})
            else:
                expect.setdefault(dd, set()).update({i for i in range(start + 1, end + 1) if i % f == 0} | {end})
        for dd, steps in expect.items():
            got = sorted(int(p) for p in os.listdir(dd) if p.isdigit())
            want = sorted(steps)[-m:]
            if got != want:
                bad.append(f"retained {got} expected {want}")
            if os.path.exists(os.path.join(dd, "config.yaml")) != (job["problem"] == "forest"):
                bad.append("config.yaml presence")
            for step in got:
                chk = ckkit.make_solver(name, ckkit.make_problem(job["problem"]))
                chk.load_checkpoint(dd, step=step)
                if chk.iteration != step:
                    bad.append(f"step {step} holds iteration {chk.iteration}")
        return bool(bad), f"{name} f={f} m={m} calls {[tuple(cl[1:]) for cl in calls]}: " + ("; ".join(bad) or "as documented")
    finally:
        dirs.cleanup()

"""C15 - shipped problems' transitions and rewards match the documented dynamics."""
from __future__ import annotations

import jax
import jax.numpy as jnp
import numpy as np
import z3

from .. import kit, pathx, shipped, zx
from ..harness import Obligations, unq
from ..trace import symbolic, sym, val_of, lift

ID = "C15"
LEVEL = "model_checking"
FUNCTIONS = ["DeMoorSingleProductPerishable.transition/_issue_fifo/_issue_lifo/_issue_one_step/_calculate_single_step_reward",
             "HendrixTwoProductPerishable.transition/_issue_fifo/_calculate_single_step_reward",
             "MirjaliliPlateletPerishable.transition/_issue_oufo/_calculate_single_step_reward",
             "Forest.transition"]
RULE = ("One job per problem parameterisation (useful life, lead time, issuing policy are shapes and are enumerated); "
        "state, action and event components are symbolic integers >= 0 without upper bound, all cost/price "
        "coefficients symbolic reals; one obligation per successor component, one for the reward and the unit "
        "conservation identities extracted from the real reward by unit cost vectors.")
ASSUMPTIONS = [
    "state/action/event components are integers >= 0 (unbounded above, so the result holds for every order/demand limit)",
    "Mirjalili: weekday in 0..6; the delivery clip bound (max_order_quantity) is a symbolic integer >= 1",
    "Forest: S symbolic >= 1, age in 0..S-1, action/event in {0,1}; reference = pymdptoolbox forest example "
    "(reward 0 for cutting at age 0, r1 for waiting in the oldest state whether or not it burns) which the repository's own test pins",
    "Hendrix has no wastage term in its reward, so units expired are taken from the reference model in its conservation identity",
    "floats as reals, int32 as integers",
]
OUTSIDE = "useful life > 5, lead time > 4; negative components; floating-point rounding of cost products"
EXPLANATION = "differential harness: real transition() under the z3-valued trace vs a scalar reference written from the docstrings"
JOB_TIMEOUT = {"quick": 900, "thorough": 3000}


def bounds(tier):
    return {"de_moor": "useful life 1..5 x lead time 1..4 x fifo/lifo" if tier == "thorough" else "useful life 1..4 x lead time 1..3 x fifo/lifo",
            "hendrix": "useful life 1..5" if tier == "thorough" else "useful life 1..3",
            "mirjalili": "useful life 1..5" if tier == "thorough" else "useful life 1..4",
            "forest": "S symbolic"}


def jobs(tier, seed):
    out = []
    ms, Ls = (range(1, 5), range(1, 4)) if tier == "quick" else (range(1, 6), range(1, 5))
    for m in ms:
        for L in Ls:
            for pol in ("fifo", "lifo"):
                out.append(dict(name=f"de_moor-m{m}-L{L}-{pol}", problem="de_moor", m=m, L=L, policy=pol, devices=1,
                                cost=m + L, seed=seed))
    for m in (range(1, 4) if tier == "quick" else range(1, 6)):
        out.append(dict(name=f"hendrix-m{m}", problem="hendrix", m=m, devices=1, cost=2 * m, seed=seed))
    for m in (range(1, 5) if tier == "quick" else range(1, 6)):
        out.append(dict(name=f"mirjalili-m{m}", problem="mirjalili", m=m, devices=1, cost=2 * m, seed=seed))
    out.append(dict(name="forest", problem="forest", devices=1, cost=1, seed=seed))
    # the same obligations for an instance created after sibling instances (one parameter changed each) in the same process
    for j in [dict(name="de_moor-m2-L2-lifo", problem="de_moor", m=2, L=2, policy="lifo"), dict(name="hendrix-m2", problem="hendrix", m=2),
              dict(name="mirjalili-m2", problem="mirjalili", m=2), dict(name="forest", problem="forest")]:
        out.append(dict(j, name=j["name"] + "-after-siblings", history=True, devices=1, cost=10, seed=seed))
    return out


def make(job):
    if job.get("history") and not shipped.HISTORY:
        with shipped.history():
            return make(job)
    p = job["problem"]
    if p == "de_moor":
        return shipped.build("de_moor", max_demand=3, max_useful_life=job["m"], lead_time=job["L"],
                             max_order_quantity=1 if job["m"] + job["L"] > 5 else 2, issue_policy=job["policy"])
    if p == "hendrix":
        return shipped.build("hendrix", max_useful_life=job["m"], max_order_quantity_a=1, max_order_quantity_b=1)
    if p == "mirjalili":
        return shipped.build("mirjalili", max_useful_life=job["m"], max_order_quantity=1 if job["m"] > 3 else 2, max_demand=2)
    return shipped.build("forest", S=4)


def symbolic_step(job, pb):
    """Runs the real transition on symbolic vectors. Returns dict with terms + assumptions."""
    p = job["problem"]
    sd, ad, ed = pb.state_space.shape[1], pb.action_space.shape[1], pb.random_event_space.shape[1]
    st, ac, ev = sym("s", (sd,), "int"), sym("a", (ad,), "int"), sym("e", (ed,), "int")
    pre = [x >= 0 for x in list(st.val) + list(ac.val) + list(ev.val)]
    lifted = {}
    if p == "de_moor":
        pb.cost_components = sym("c", (4,))
        lifted["costs"] = list(pb.cost_components.val)
    elif p == "hendrix":
        pb.sales_prices = sym("price", (2,))
        pb.variable_order_costs = sym("ocost", (2,))
        lifted["prices"], lifted["ocosts"] = list(pb.sales_prices.val), list(pb.variable_order_costs.val)
    elif p == "mirjalili":
        pb.cost_components = sym("c", (5,))
        pb.max_order_quantity = sym("Q", (), "int")
        lifted["costs"] = list(pb.cost_components.val)
        lifted["Q"] = pb.max_order_quantity.val[()]
        pre += [lifted["Q"] >= 1, st.val[0] <= 6]
    else:
        pb.S = sym("S", (), "int")
        pb.r1, pb.r2 = sym("r1"), sym("r2")
        lifted.update(S=pb.S.val[()], r1=pb.r1.val[()], r2=pb.r2.val[()])
        pre += [lifted["S"] >= 1, st.val[0] <= lifted["S"] - 1, ac.val[0] <= 1, ev.val[0] <= 1]
    ns, rew = pb.transition(st, ac, ev)
    return dict(state=list(st.val), action=list(ac.val), event=list(ev.val), ns=list(val_of(ns).reshape(-1)),
                reward=val_of(rew).reshape(())[()], pre=pre, lifted=lifted,
                ns_dtype=str(getattr(ns, "dtype", "")), ns_shape=tuple(ns.shape))


def reference(job, r):
    p = job["problem"]
    L = r["lifted"]
    if p == "de_moor":
        return shipped.de_moor_ref(r["state"], r["action"], r["event"], L["costs"], job["m"], job["L"], job["policy"] == "fifo")
    if p == "hendrix":
        return shipped.hendrix_ref(r["state"], r["action"], r["event"], L["prices"], L["ocosts"], job["m"])
    if p == "mirjalili":
        return shipped.mirjalili_ref(r["state"], r["action"], r["event"], L["costs"], job["m"], L["Q"])
    nxt, rew = shipped.forest_ref(r["state"], r["action"], r["event"], L["S"], L["r1"], L["r2"])
    return nxt, rew, {}


def unit_reward(reward, costs, k, scale=-1):
    """reward with cost vector e_k (reward is linear in the lifted costs) -> the k-th quantity."""
    sub = [(c, z3.RealVal(1 if i == k else 0)) for i, c in enumerate(costs)]
    return z3.simplify(scale * z3.substitute(zx.Z(reward), *sub))


def run_job(job):
    ob = Obligations(job)
    pb = make(job)
    ex = pathx.Explorer()

    def run():
        with symbolic():
            return symbolic_step(job, pb)
    for o in ex.explore(run):
        if o.exc is not None:
            from ..harness import exc_origin
            if exc_origin(o.exc) == "harness":
                ob.fail_harness(f"harness raised: {o.exc!r}")
                continue
            ob.fail_harness(f"transition raised under symbolic execution: {o.exc!r}")
            continue
        r = o.value
        pre = o.pc + r["pre"]
        ob.reach("path", pre)
        nxt, rew, info = reference(job, r)

        def cexf(m, r=r):
            d = dict(problem=job["problem"], job={k: job.get(k) for k in ("m", "L", "policy")},
                     state=[zx.model_value(m, x) for x in r["state"]], action=[zx.model_value(m, x) for x in r["action"]],
                     event=[zx.model_value(m, x) for x in r["event"]])
            for k, v in r["lifted"].items():
                d[k] = [zx.model_value(m, x) for x in v] if isinstance(v, list) else zx.model_value(m, v)
            return d
        ob.prove("next_state_shape", [], len(r["ns"]) == len(nxt) and "int" in r["ns_dtype"], cex=lambda m: None)
        for k in range(min(len(nxt), len(r["ns"]))):
            ob.prove(f"next_state[{k}]", pre, zx.eq(r["ns"][k], nxt[k]), cex=cexf, kind="successor component == reference")
        ob.prove("reward", pre, zx.eq(r["reward"], rew), cex=cexf, kind="reward == reference")
        # unit conservation on the real outputs
        p = job["problem"]
        if p == "de_moor":
            m_, L_ = job["m"], job["L"]
            costs = r["lifted"]["costs"]
            shortage = unit_reward(r["reward"], costs, 1)
            expired = unit_reward(r["reward"], costs, 2)
            demand = zx.Z(r["event"][0])
            opening = shipped.ssum(r["state"][L_ - 1:])
            pipeline = [r["action"][0]] + r["state"][:L_ - 1]
            closing = shipped.ssum(r["ns"][L_ - 1:])
            lhs = zx.to_real(zx.add(opening, pipeline[-1]))
            rhs = (z3.ToReal(demand) - shortage) + expired + zx.Z(zx.to_real(closing))
            ob.prove("conservation", pre, zx.Z(lhs) == rhs, cex=cexf, kind="opening+receipts == issued+expired+closing")
            ob.prove("ordered-units-enter-pipeline", pre,
                     zx.eq(r["ns"][0], r["action"][0]) if L_ > 1 else zx.eq(r["ns"][0], r["action"][0]), cex=cexf,
                     kind="order enters pipeline / arrives after lead time")
        elif p == "mirjalili":
            costs = r["lifted"]["costs"]
            Q = r["lifted"]["Q"]
            shortage = unit_reward(r["reward"], costs, 2)
            expired = unit_reward(r["reward"], costs, 3)
            demand = zx.Z(r["event"][0])
            opening = shipped.ssum([zx.smin(zx.smax(zx.add(s, rc), 0), Q) for s, rc in
                                    zip([0] + r["state"][1:], r["event"][1:])])
            closing = shipped.ssum(r["ns"][1:])
            ob.prove("conservation", pre, zx.Z(zx.to_real(opening)) == (z3.ToReal(demand) - shortage) + expired +
                     zx.Z(zx.to_real(closing)), cex=cexf, kind="opening+receipts == issued+expired+closing")
            ob.prove("weekday-cyclic", pre, z3.And(zx.Z(r["ns"][0]) >= 0, zx.Z(r["ns"][0]) <= 6), cex=cexf,
                     kind="weekday stays in 0..6")
        elif p == "hendrix":
            m_ = job["m"]
            for tag, sl, act in (("a", slice(0, m_), 0), ("b", slice(m_, 2 * m_), 1)):
                opening = shipped.ssum(r["state"][sl])
                closing = shipped.ssum(r["ns"][sl])
                ob.prove(f"conservation_{tag}", pre,
                         zx.eq(zx.add(opening, r["action"][act]),
                               zx.add(zx.add(info[f"issued_{tag}"], info[f"expired_{tag}"]), closing)),
                         cex=cexf, kind="opening+receipts == issued+expired+closing")
        # E7b differential on concrete triples
        _differential(ob, job, r)
    return ob.result()


def _differential(ob, job, r):
    pb = make(job)
    rng = np.random.default_rng(job.get("seed", 0) + 11)
    bad = 0
    for t in range(4):
        st = rng.integers(0, 4, len(r["state"]))
        ac = rng.integers(0, 3, len(r["action"]))
        ev = rng.integers(0, 5, len(r["event"]))
        if job["problem"] == "forest":
            st, ac, ev = st % 4, ac % 2, ev % 2
        if job["problem"] == "mirjalili":
            st[0] = st[0] % 7
        pairs = list(zip(r["state"], map(int, st))) + list(zip(r["action"], map(int, ac))) + list(zip(r["event"], map(int, ev)))
        L = r["lifted"]
        if job["problem"] == "de_moor":
            pairs += list(zip(L["costs"], [zx.from_np_scalar(x) for x in np.asarray(pb.cost_components)]))
        elif job["problem"] == "hendrix":
            pairs += list(zip(L["prices"], [zx.from_np_scalar(x) for x in np.asarray(pb.sales_prices)]))
            pairs += list(zip(L["ocosts"], [zx.from_np_scalar(x) for x in np.asarray(pb.variable_order_costs)]))
        elif job["problem"] == "mirjalili":
            pairs += list(zip(L["costs"], [zx.from_np_scalar(x) for x in np.asarray(pb.cost_components)]))
            pairs += [(L["Q"], int(pb.max_order_quantity))]
        else:
            pairs += [(L["S"], int(pb.S)), (L["r1"], zx.from_np_scalar(pb.r1)), (L["r2"], zx.from_np_scalar(pb.r2))]
        ns, rew = pb.transition(jnp.asarray(st, dtype=jnp.int32), jnp.asarray(ac, dtype=jnp.int32), jnp.asarray(ev, dtype=jnp.int32))
        ns = np.asarray(ns).reshape(-1)
        for k in range(len(ns)):
            if int(kit.substitute_eval(r["ns"][k], pairs)) != int(ns[k]):
                bad += 1
        if abs(float(kit.substitute_eval(r["reward"], pairs)) - float(rew)) > 1e-9 * max(1.0, abs(float(rew))):
            bad += 1
    ob.extra["differential_runs"] = ob.extra.get("differential_runs", 0) + 4
    if bad:
        ob.fail_harness(f"symbolic encoding disagrees with real JAX on {bad} outputs (rule bug)")


def finding_key(v):
    return f"{v['job'].get('problem')}:{v['obligation'].split('[')[0]}"


def replay(data):
    c = unq(data["cex"])
    job = data["job"]
    pb = make(job)
    p = job["problem"]
    f = lambda xs: [float(x) for x in xs]
    if p == "de_moor":
        pb.cost_components = jnp.asarray(f(c["costs"]))
    elif p == "hendrix":
        pb.sales_prices, pb.variable_order_costs = jnp.asarray(f(c["prices"])), jnp.asarray(f(c["ocosts"]))
    elif p == "mirjalili":
        pb.cost_components = jnp.asarray(f(c["costs"]))
        pb.max_order_quantity = int(c["Q"])
    else:
        pb.S, pb.r1, pb.r2 = int(c["S"]), float(c["r1"]), float(c["r2"])
    st, ac, ev = [int(x) for x in c["state"]], [int(x) for x in c["action"]], [int(x) for x in c["event"]]
    ns, rew = pb.transition(jnp.asarray(st, dtype=jnp.int32), jnp.asarray(ac, dtype=jnp.int32), jnp.asarray(ev, dtype=jnp.int32))
    ns = [int(x) for x in np.asarray(ns).reshape(-1)]
    r = dict(state=st, action=ac, event=ev)
    if p == "de_moor":
        L = dict(costs=c["costs"])
    elif p == "hendrix":
        L = dict(prices=c["prices"], ocosts=c["ocosts"])
    elif p == "mirjalili":
        L = dict(costs=c["costs"], Q=int(c["Q"]))
    else:
        L = dict(S=int(c["S"]), r1=c["r1"], r2=c["r2"])
    r["lifted"] = L
    nxt, rr, info = reference(job, r)
    nxt = [int(x) for x in nxt]
    if data["obligation"].startswith("conservation") and p in ("de_moor", "mirjalili"):
        # extract units short / expired from the real reward with unit cost vectors
        def unit(k, n):
            pb.cost_components = jnp.asarray([1.0 if i == k else 0.0 for i in range(n)])
            _, rw = pb.transition(jnp.asarray(st, dtype=jnp.int32), jnp.asarray(ac, dtype=jnp.int32), jnp.asarray(ev, dtype=jnp.int32))
            return -float(rw)
        if p == "de_moor":
            L_ = job["L"]
            shortage, expired = unit(1, 4), unit(2, 4)
            opening = sum(st[L_ - 1:]) + ([ac[0]] + st[:L_ - 1])[-1]
            closing = sum(ns[L_ - 1:])
        else:
            shortage, expired = unit(2, 5), unit(3, 5)
            Q = int(c["Q"])
            opening = sum(min(max(a + b, 0), Q) for a, b in zip([0] + st[1:], ev[1:]))
            closing = sum(ns[1:])
        issued = ev[0] - shortage
        bad = abs(opening - (issued + expired + closing)) > 1e-9
        return bool(bad), (f"{p} {job.get('name')}: transition({st},{ac},{ev}) -> {ns}: opening+receipts {opening} vs "
                           f"issued {issued} + expired {expired} + closing {closing}")
    bad = ns != nxt or abs(float(rew) - float(rr)) > 1e-6 * max(1.0, abs(float(rr)))
    return bool(bad), (f"{p} {job.get('name')}: transition({st},{ac},{ev}) -> {ns}, reward {float(rew)}; "
                       f"documented model -> {nxt}, reward {float(rr)}")

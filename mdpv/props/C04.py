"""C04 - relative value iteration reports the optimal average reward within epsilon."""
from __future__ import annotations

import itertools
from fractions import Fraction
from math import gcd

import jax
import jax.numpy as jnp
import numpy as np
import z3

from .. import kit, pathx, zx
from ..harness import Obligations, tofloat, unq
from ..trace import lift, sym, symbolic, val_of
from .C08 import shadowed

ID = "C04"
LEVEL = "model_checking"
FUNCTIONS = ["RelativeValueIteration._initialize_solver_state_elements", "RelativeValueIteration._iteration_step", "RelativeValueIteration.solve",
             "RelativeValueIteration._setup_convergence_testing", "ValueIteration._update_values/_extract_policy/_get_span (as used by RVI)"]
RULE = ("One job per (shape, probability pattern, batch size, devices, pre-state kind). The real solve(1) runs once with the successor "
        "table lifted; the path on which the solver reports convergence is selected; every unichain-aperiodic successor structure is "
        "substituted; the optimal gain g*, bias h (optimality equation) and the returned policy's gain (evaluation equation) are "
        "unknowns fixed by their linear systems; one obligation per claim and state.")
ASSUMPTIONS = [
    "unichain, aperiodic MDPs: every deterministic stationary policy has a single recurrent class of period 1 (filter applied to each "
    "enumerated structure by a graph routine; it is the property's own precondition)",
    "pre-state: either the solver's real initial state with arbitrary initial values, or any state satisfying the representation invariant "
    "gain == values[-1] (which every iteration establishes: shown as an obligation)",
    "two-event shapes use probabilities (1/2,1/2) or (1/4,3/4); epsilon > 0; floats as reals",
]
OUTSIDE = "S > 3; multichain or periodic MDPs; probability patterns off the grid"
EXPLANATION = "real RVI iteration under the z3-valued trace; average-reward optimality via linear fixed-point unknowns (LRA)"
JOB_TIMEOUT = {"quick": 2400, "thorough": 7200}

PATTERNS = {"det": None, "half": [Fraction(1, 2), Fraction(1, 2)], "skew": [Fraction(1, 4), Fraction(3, 4)]}


def bounds(tier):
    return {"quick": "S2A2E1 det (all unichain-aperiodic of 16), S2A2E2 half (of 256), S3A2E1 det (of 729), bs {1,2}, devices {1,2}",
            "thorough": "adds S2A2E2 skew, S3A2E2 half (sample 400), S3A3E1 (sample 600)"}[tier]


def jobs(tier, seed):
    out = []

    def add(S, A, E, pat, bs, dv, pre, sample=None, cost=1):
        out.append(dict(name=f"S{S}A{A}E{E}-{pat}-bs{bs}-dev{dv}-{pre}", S=S, A=A, E=E, pat=pat, bs=bs, devices=dv, pre=pre, sample=sample,
                        seed=seed, cost=cost * S ** (S * A * E)))
    for pre in ("second-call", "two-sweeps"):   # a second solve() call on the same solver / two sweeps inside one call
        add(2, 2, 1, "det", 2, 1, pre)
        add(2, 2, 2, "half", 1, 1, pre)
    for pre in ("initial", "invariant"):
        add(2, 2, 1, "det", 1, 1, pre)
        add(2, 2, 2, "half", 2, 1, pre)
        add(3, 2, 1, "det", 2, 1, pre)
        add(2, 2, 1, "det", 2, 2, pre)
        if tier == "thorough":
            add(2, 2, 2, "skew", 1, 1, pre)
            add(3, 2, 2, "half", 2, 1, pre, sample=400, cost=1e-3)
            add(3, 3, 1, "det", 3, 1, pre, sample=600, cost=1e-3)
            add(3, 2, 1, "det", 64, 2, pre)
    return out


def unichain_aperiodic(T, P):
    """every deterministic stationary policy: one recurrent class, period 1."""
    S, A, E = T.shape
    for pol in itertools.product(range(A), repeat=S):
        adj = [set(int(T[i, pol[i], e]) for e in range(E) if P[i, pol[i], e] > 0) for i in range(S)]
        reach = [set([i]) for i in range(S)]
        for i in range(S):
            stack = [i]
            while stack:
                u = stack.pop()
                for v in adj[u]:
                    if v not in reach[i]:
                        reach[i].add(v)
                        stack.append(v)
        # closed communicating classes
        classes = set()
        for i in range(S):
            cls = frozenset(j for j in reach[i] if i in reach[j])
            if all(reach[j] <= cls for j in cls):
                classes.add(cls)
        if len(classes) != 1:
            return False
        (cls,) = classes
        # period: gcd of lengths of closed walks through a fixed node (BFS levels)
        root = next(iter(cls))
        level = {root: 0}
        g = 0
        queue = [root]
        while queue:
            u = queue.pop(0)
            for v in adj[u]:
                if v not in cls:
                    continue
                if v not in level:
                    level[v] = level[u] + 1
                    queue.append(v)
                else:
                    g = gcd(g, level[u] + 1 - level[v])
        if g != 1:
            return False
    return True


def make(job):
    S, A, E = job["S"], job["A"], job["E"]
    cfg = dict(S=S, A=A, E=E, ds=1, da=1, de=1, offset=0, bs=job["bs"])
    pb = kit.make_tab(cfg, job.get("seed", 0))
    P = np.zeros((S, A, E))
    P[:, :] = [float(x) for x in (PATTERNS[job["pat"]] or [1] + [0] * (E - 1))]
    pb.P = jnp.asarray(P)
    return pb, P


def run_job(job):
    ob = Obligations(job, default_timeout_ms=120000)
    S, A, E = job["S"], job["A"], job["E"]
    eps = z3.Real("eps")
    ex = pathx.Explorer(max_paths=50)
    h = {}

    def run():
        pb, Pc = make(job)
        h["P"] = Pc
        with symbolic():
            L = h["L"] = kit.Lifted(pb, lift_P=False, lift_V0=True)
            pathx.CUR.assume(z3.And(*(L.pre + [eps > 0])))
            solver = kit.make_solver("rvi", pb, max_batch_size=job["bs"])
            if job["pre"] in ("invariant", "two-sweeps"):
                V = sym("V", (S,))
                solver.values = V
                solver.gain = lift(V.val[S - 1])
                solver.iteration = 1
            else:
                V = solver.values  # the real initial values: initial_value(state) with V0 symbolic
            solver.epsilon = lift(eps)
            solver._setup_convergence_testing()
            from loguru import logger
            msgs = []
            if job["pre"] == "second-call":
                solver.solve(1)          # an earlier call (whatever its outcome); the claims are about the next one
            hid = logger.add(lambda m: msgs.append(str(m)), level="INFO")
            try:
                st = solver.solve(2 if job["pre"] == "two-sweeps" else 1)
            finally:
                logger.remove(hid)
            return dict(reported=any("Convergence threshold reached" in m for m in msgs), vals=val_of(st.values), pol=val_of(st.policy),
                        gain=val_of(st.info.gain).reshape(())[()], V=val_of(V), aspace=np.asarray(pb.action_space))
    with shadowed():
        outs = list(ex.explore(run))
    L, Pc = h["L"], h["P"]
    Tvars = list(L.Tvec.reshape(-1))
    structures = list(itertools.product(range(S), repeat=S * A * E))
    structures = [t for t in structures if unichain_aperiodic(np.array(t).reshape(S, A, E), Pc)]
    if job.get("sample") and len(structures) > job["sample"]:
        rng = np.random.default_rng(job.get("seed", 0))
        structures = [structures[i] for i in rng.choice(len(structures), job["sample"], replace=False)]
    ob.extra["structures"] = len(structures)
    gs, gp = z3.Real("g_star"), z3.Real("g_pi")
    hs = [z3.Real(f"h{i}") for i in range(S)]
    hp = [z3.Real(f"hp{i}") for i in range(S)]
    nconv = 0
    for pi_, o in enumerate(outs):
        if o.exc is not None:
            from ..harness import exc_origin
            if exc_origin(o.exc) == "harness":
                ob.fail_harness(f"harness raised: {o.exc!r}")
                continue
            ob.fail_harness(f"raised: {o.exc!r}")
            continue
        r = o.value
        # representation invariant established by every iteration
        ob.prove(f"invariant-established[path{pi_}]", o.pc, zx.eq(r["gain"], r["vals"][S - 1]), kind="after an iteration gain == values[-1]",
                 cex=lambda m, r=r: dict(T=kit.model_array(m, L.T), R=kit.model_array(m, L.R), V=kit.model_array(m, r["V"] if job["pre"] != "second-call" else L.V0),
                                         eps=zx.model_value(m, eps), P=[[[zx.from_np_scalar(x) for x in row] for row in pl] for pl in Pc], pre=job["pre"]))
        if not r["reported"]:
            continue
        nconv += 1
        pcz = z3.And(*[c for c in o.pc if zx.is_z(c)])
        pol = [kit.policy_row_index(list(r["pol"][i]), r["aspace"])[1] for i in range(S)]
        reach_done = False
        for Tt in structures:
            Tc = np.array(Tt).reshape(S, A, E)
            sub = [(Tvars[k], z3.IntVal(int(Tt[k]))) for k in range(len(Tvars))]
            pcs = z3.simplify(z3.substitute(pcz, *sub))
            if z3.is_false(pcs):
                continue
            W = [z3.simplify(z3.substitute(zx.Z(zx.to_real(x)), *sub)) for x in r["vals"]]
            gain = z3.simplify(z3.substitute(zx.Z(zx.to_real(r["gain"])), *sub))

            def q(i, a, Hv):
                t = 0
                for e in range(E):
                    p = zx.from_np_scalar(Pc[i, a, e])
                    if p != 0:
                        t = t + zx.Z(p) * (zx.Z(L.R[i, a, e]) + Hv[int(Tc[i, a, e])])
                return t
            cons = [pcs, hs[S - 1] == 0, hp[S - 1] == 0]
            for i in range(S):
                cons.append(hs[i] + gs == kit.zmax_list([q(i, a, hs) for a in range(A)]))
                idx = z3.simplify(z3.substitute(zx.Z(pol[i]), *sub)) if zx.is_z(pol[i]) else zx.Z(pol[i])
                e_ = q(i, A - 1, hp)
                for a in range(A - 2, -1, -1):
                    e_ = z3.If(idx == a, q(i, a, hp), e_)
                cons.append(hp[i] + gp == e_)
            tag = "".join(map(str, Tt))

            def cexf(m, Tc=Tc, r=r):
                return dict(T=Tc, R=kit.model_array(m, L.R), V=kit.model_array(m, r["V"] if job["pre"] != "second-call" else L.V0), eps=zx.model_value(m, eps),
                            P=[[[zx.from_np_scalar(x) for x in row] for row in pl] for pl in Pc], pre=job["pre"])
            if not reach_done:
                reach_done = ob.reach(f"converged-path{pi_}", cons) == "sat"
            ob.prove(f"gain-within-eps[{tag}]", cons, z3.And(gain - gs <= eps, gs - gain <= eps), cex=cexf, kind="|reported gain - optimal gain| <= eps")
            ob.prove(f"policy-gain-within-eps[{tag}]", cons, gs - gp <= eps, cex=cexf, kind="optimal gain - gain of returned policy <= eps")
            for i in range(S):
                Bw = kit.zmax_list([q(i, a, W) for a in range(A)])
                ob.prove(f"optimality-equation-residual[{tag},{i}]", cons, z3.And(W[i] + gain - Bw <= eps, Bw - W[i] - gain <= eps), cex=cexf,
                         kind="|h(s) + gain - B1(h)(s)| <= eps for the returned relative values")
    ob.prove("a-converged-path-exists", [], nconv >= 1)
    return ob.result()


def finding_key(v):
    c = v.get("cex") or {}
    return f"{c.get('pre', v['job'].get('pre'))}:{v['obligation'].split('[')[0]}"


def average_reward(T, R, P, pol=None):
    """optimal (or policy) gain by relative value iteration in float64 (independent loop, many sweeps)."""
    S, A, E = T.shape
    h = np.zeros(S)
    g = 0.0
    for _ in range(20000):
        q = (P * (R + h[T])).sum(-1)
        nh = q.max(-1) if pol is None else q[np.arange(S), pol]
        g = nh[-1]
        nh = nh - g
        if np.abs(nh - h).max() < 1e-13:
            break
        h = nh
    return g, h


def replay(data):
    c = unq(data["cex"])
    job = data["job"]
    from ..tab import Tab
    T = np.array(c["T"], dtype=np.int64)
    R, P, V = (np.array(tofloat(c[x]), dtype=float) for x in ("R", "P", "V"))
    e = float(c["eps"])
    S, A, E = T.shape
    if c["pre"] in ("initial", "second-call"):
        pb = Tab(S, A, E, T=T, R=R, P=P, V0=V)
        s = kit.make_solver("rvi", pb, max_batch_size=job["bs"], epsilon=e)
        if c["pre"] == "second-call":
            s.solve(1)
    else:
        pb = Tab(S, A, E, T=T, R=R, P=P)
        s = kit.make_solver("rvi", pb, max_batch_size=job["bs"], epsilon=e)
        s.values = jnp.asarray(V)
        s.gain = jnp.asarray(V[-1])
        s.iteration = 1
    old = np.asarray(s.values).copy()
    it0 = s.iteration
    st = s.solve(2 if c["pre"] == "two-sweeps" else 1)
    W, gain = np.asarray(st.values), float(st.info.gain)
    if data["obligation"].startswith("invariant-established"):
        return bool(abs(gain - W[-1]) > 1e-9 * max(1.0, abs(gain))), f"after solve(): gain {gain} vs values[-1] {W[-1]}"
    d = W - old
    if c["pre"] != "two-sweeps" and d.max() - d.min() >= e:
        return False, "did not converge in floating point"
    if c["pre"] == "two-sweeps" and st.info.iteration - it0 == 2:
        pass
    g_star, _ = average_reward(T, R, P)
    asp = np.asarray(pb.action_space)
    pol = np.array([int(np.where((asp == np.asarray(st.policy)[i]).all(1))[0][0]) for i in range(S)])
    g_pi, _ = average_reward(T, R, P, pol)
    resid = np.abs(W + gain - (P * (R + W[T])).sum(-1).max(-1)).max()
    tol = 1e-7 * max(1.0, abs(g_star))
    bad = abs(gain - g_star) > e + tol or g_star - g_pi > e + tol or resid > e + tol
    return bool(bad), (f"{c['pre']} pre-state, values {old.tolist()}: reported gain {gain:.6g}, optimal gain {g_star:.6g}, policy gain {g_pi:.6g}, "
                       f"optimality-equation residual {resid:.6g}, eps {e:.6g}")

"""C06 - the semi-asynchronous sweep is block Gauss-Seidel in the documented order."""
from __future__ import annotations

import itertools
from fractions import Fraction

import jax
import jax.numpy as jnp
import numpy as np
import z3

from .. import kit, pathx, rules, zx
from ..harness import Obligations, tofloat, unq
from ..stubs.common import patched
from ..trace import lift, sym, symbolic, val_of
from .C08 import shadowed

ID = "C06"
LEVEL = "model_checking"
FUNCTIONS = ["SemiAsyncValueIteration._update_values", "SemiAsyncValueIteration._shuffle_states", "SemiAsyncValueIteration._reorder_values",
             "SemiAsyncValueIteration._calculate_updated_value_scan_state_batches (scan_fn closure, padding mask, scatter into carried values)",
             "SemiAsyncValueIteration._batch_get_indices", "BatchProcessor.prepare_batches/unbatch_results", "SemiAsyncValueIteration._setup_config (PRNGKey)"]
RULE = ("One job per (n_states, max_batch_size, devices, zero-vector offset, permutation or fixed order, duplicate-scatter order model). "
        "T, R, P, V, gamma symbolic; each state's output is compared with a block Gauss-Seidel reference driven by the same partition "
        "and permutation. Further jobs: fixed-point equivalence with the synchronous backup, exactly-once placement, seed determinism.")
ASSUMPTIONS = [
    "jax.random.permutation is replaced (as seen from the solver module) by a stub returning the job's permutation: every permutation "
    "of <= 4 states is enumerated (S=5: sampled), so the claim covers any permutation the real generator can return",
    "duplicate-index scatter (padded rows writing to the index of the zero vector under the mask) is modelled both as last-writer-wins and "
    "first-writer-wins; XLA leaves the order unspecified",
    "seed determinism / fresh permutation per sweep are checked on the real PRNG for seeds {0,1,42} x 3 sweeps (concrete evaluation)",
    "floats as reals",
]
OUTSIDE = "n_states > 5; more than 2 devices in the symbolic leg"
EXPLANATION = "real semi-async sweep under the z3-valued trace vs block Gauss-Seidel over the real partition"
JOB_TIMEOUT = {"quick": 1800, "thorough": 5400}


def bounds(tier):
    return {"quick": "S in {2,3} all permutations + fixed, S=4 six sampled permutations; bs 1..S+1; devices {1,2}; offset 0/1; both duplicate orders",
            "thorough": "S<=4 all permutations, S=5 12 sampled; bs 1..S+1; devices {1,2}; both offsets; both duplicate orders"}[tier]


def jobs(tier, seed):
    out = []
    rng = np.random.default_rng(seed)
    for S in ((2, 3, 4) if tier == "quick" else (2, 3, 4, 5)):
        perms = list(itertools.permutations(range(S)))
        if (tier == "quick" and S >= 4) or S >= 5:
            k = 6 if tier == "quick" else 12
            perms = [perms[i] for i in rng.choice(len(perms), k, replace=False)]
        for perm in [None] + perms:
            for dv in (1, 2):
                bss = range(1, S + 2) if dv == 1 else (1, 2, 64)
                if tier == "quick" and S == 4:
                    bss = (1, 3) if dv == 1 else (1, 2)   # bs=1 on 2 devices: two real batches on the second device
                for bs in bss:
                    off = (S + bs) % 2
                    out.append(dict(name=f"gs-S{S}-bs{bs}-dev{dv}-off{off}-perm{'fixed' if perm is None else ''.join(map(str, perm))}",
                                    kind="gs", S=S, bs=bs, devices=dv, off=off, perm=None if perm is None else list(perm), seed=seed,
                                    cost=S * (30 if bs == 64 else 1)))
    out.append(dict(name="fixed-point-S3", kind="fixpoint", S=3, bs=1, devices=1, seed=seed, cost=20))
    out.append(dict(name="fixed-point-S3-bs2", kind="fixpoint", S=3, bs=2, devices=1, seed=seed, cost=20))
    for sd in (0, 1, 42):
        for dv in (1, 2):
            out.append(dict(name=f"prng-seed{sd}-dev{dv}", kind="prng", rseed=sd, devices=dv, seed=seed, cost=2))
    return out


def cfg_of(job):
    S = job["S"]
    return dict(S=S, A=2, E=2 if S <= 3 else 1, ds=2 if S >= 3 else 1, da=1, de=1, offset=job.get("off", 0), prob_array=False, bs=job["bs"])


class JaxShim:
    """`jax` as seen by semi_async_value_iteration: random.permutation returns the job's permutation."""

    def __init__(self, perm):
        self._perm = perm
        self.calls = []

        class R:
            def __getattr__(s, n):
                return getattr(jax.random, n)

            def permutation(s, key, x, *a, **k):
                self.calls.append(key)
                return jnp.asarray(x)[jnp.asarray(np.asarray(self._perm))]
        self.random = R()

    def __getattr__(self, n):
        return getattr(jax, n)


def gs_reference(L, V, gamma, order, nd, nb, bs):
    """Block Gauss-Seidel: per device, batches in order; a state's new value uses the already updated values of
    earlier batches on the same device and the previous sweep's values of all other states."""
    S = L.S
    slots = list(order) + [None] * (nd * nb * bs - S)
    new = [None] * S
    for d in range(nd):
        carry = list(V)
        for b in range(nb):
            batch = slots[(d * nb + b) * bs:(d * nb + b + 1) * bs]
            B = kit.bellman(L, carry, gamma)
            for s in batch:
                if s is not None:
                    new[s] = B[s]
            for s in batch:
                if s is not None:
                    carry[s] = new[s]
    return new


def run_job(job):
    ob = Obligations(job, default_timeout_ms=120000)
    return {"gs": run_gs, "fixpoint": run_fixpoint, "prng": run_prng}[job["kind"]](job, ob)


def symbolic_sweep(job, pb, solver, lift_P=True, gamma=None):
    import mdpax.solvers.semi_async_value_iteration as sm
    S = job["S"]
    L = kit.Lifted(pb, lift_P=lift_P)
    pathx.CUR.assume(z3.And(*L.pre))
    V = sym("V", (S,))
    solver.gamma = sym("gamma") if gamma is None else lift(zx.Z(gamma))
    shim = JaxShim(job["perm"]) if job.get("perm") is not None else None
    if shim is not None:
        with patched(sm, jax=shim):
            new = solver._update_values(solver.batched_states, pb.action_space, pb.random_event_space, solver.gamma, V)
    else:
        new = solver._update_values(solver.batched_states, pb.action_space, pb.random_event_space, solver.gamma, V)
    return L, val_of(new), val_of(V), val_of(solver.gamma)[()]


def run_gs(job, ob):
    cfg = cfg_of(job)
    S = job["S"]
    pb = kit.make_tab(cfg, job["seed"])
    kw = dict(max_batch_size=job["bs"])
    if job.get("perm") is not None:
        kw.update(shuffle_states=True, random_seed=3)
    solver = kit.make_solver("savi", pb, **kw)
    nd, nb, bs = solver.batch_processor.batch_shape
    ob.extra["batch_shape"] = [[nd, nb, bs, solver.n_pad]]
    order = job["perm"] if job.get("perm") is not None else list(range(S))
    for dup in ("last", "first"):
        rules.SCATTER_DUP_ORDER[0] = dup
        ex = pathx.Explorer()
        h = {}

        def run():
            with symbolic():
                return symbolic_sweep(job, pb, solver)
        try:
            outs = list(ex.explore(run))
        finally:
            rules.SCATTER_DUP_ORDER[0] = "last"
        for o in outs:
            if o.exc is not None:
                from ..harness import exc_origin
                if exc_origin(o.exc) == "harness":
                    ob.fail_harness(f"harness raised: {o.exc!r}")
                    continue
                ob.fail_harness(f"raised: {o.exc!r}")
                continue
            L, new, V, g = o.value
            ob.reach(f"path-{dup}", o.pc)
            ref = gs_reference(L, list(V), g, order, nd, nb, bs)
            sync = kit.bellman(L, list(V), g)
            ob.prove(f"natural-order-length[{dup}]", [], new.shape == (S,))
            for i in range(S):
                ob.prove(f"sweep==block-gauss-seidel[{dup},{i}]", o.pc, zx.eq(new[i], ref[i]), kind="new value == Gauss-Seidel backup in the documented order",
                         cex=lambda m, i=i: dict(kind="gs", state=i, cfg=cfg, perm=job.get("perm"), devices=job["devices"], T=kit.model_array(m, L.T),
                                                 R=kit.model_array(m, L.R), P=kit.model_array(m, L.P), V=kit.model_array(m, V), gamma=zx.model_value(m, g)))
            if dup == "last" and nb > 1:
                # vacuity guard: the reference really differs from the synchronous backup somewhere (values are reused)
                ob.reach(f"differs-from-synchronous[{dup}]", o.pc + [z3.Or(*[zx.Z(zx.ne(ref[i], sync[i])) for i in range(S) if zx.is_z(zx.ne(ref[i], sync[i]))] or [z3.BoolVal(False)])])
    # exactly-once placement from the real (concrete) batched index arrays
    placement_ok(ob, job, pb, solver, order)
    return ob.result()


def placement_ok(ob, job, pb, solver, order):
    import mdpax.solvers.semi_async_value_iteration as sm
    S = job["S"]
    if job.get("perm") is not None:
        with patched(sm, jax=JaxShim(job["perm"])):
            jax.clear_caches()
            idxs, batched, mask = solver._shuffle_states(jax.random.PRNGKey(0))
    else:
        batched = solver.batched_states
        n_total = int(np.prod(batched.shape[:3]))
        mask = (np.arange(n_total) >= S).reshape(batched.shape[:3])
    ids = np.asarray(jax.vmap(jax.vmap(jax.vmap(pb.state_to_index)))(batched)).reshape(-1)
    m = np.asarray(mask).reshape(-1)
    real = ids[~m].tolist()
    ob.prove("every-state-in-exactly-one-slot", [], sorted(real) == list(range(S)) and real == list(order),
             kind="every state occupies exactly one non-padded slot, in the documented order",
             cex=lambda mm: dict(kind="placement", cfg=cfg_of(job), perm=job.get("perm"), devices=job["devices"]))


def run_fixpoint(job, ob):
    S = job["S"]
    cfg = dict(S=S, A=2, E=1, ds=1, da=1, de=1, offset=0, prob_array=False, bs=job["bs"])
    pb = kit.make_tab(cfg, job["seed"])
    P = np.zeros((S, 2, 1))
    P[:, :, 0] = 1.0
    pb.P = jnp.asarray(P)
    solver = kit.make_solver("savi", pb, max_batch_size=job["bs"])
    gam = Fraction(9, 10)
    ex = pathx.Explorer()

    def run():
        with symbolic():
            return symbolic_sweep(dict(job, perm=None), pb, solver, lift_P=False, gamma=gam)
    for o in ex.explore(run):
        L, new, V, g = o.value
        Tvars = list(L.Tvec.reshape(-1))
        structures = list(itertools.product(range(S), repeat=S * 2))
        rng = np.random.default_rng(job["seed"])
        structures = [structures[i] for i in rng.choice(len(structures), 120, replace=False)]
        for Tt in structures:
            sub = [(Tvars[k], z3.IntVal(int(Tt[k]))) for k in range(len(Tvars))]
            Tc = np.array(Tt).reshape(S, 2, 1)
            upd = [z3.simplify(z3.substitute(zx.Z(new[i]), *sub)) for i in range(S)]
            Bv = [kit.zmax_list([zx.Z(L.R[i, a, 0]) + zx.Z(gam) * zx.Z(V[int(Tc[i, a, 0])]) for a in range(2)]) for i in range(S)]
            tag = "".join(map(str, Tt))
            fp_u = [upd[i] == zx.Z(V[i]) for i in range(S)]
            fp_b = [zx.Z(Bv[i]) == zx.Z(V[i]) for i in range(S)]
            cexf = lambda m, Tc=Tc: dict(kind="fixpoint", T=Tc, R=kit.model_array(m, L.R), V=kit.model_array(m, V), bs=job["bs"])
            ob.prove(f"fixed-point=>bellman-fixed-point[{tag}]", fp_u, z3.And(*fp_b), cex=cexf, kind="semi-async fixed point is a Bellman fixed point")
            ob.prove(f"bellman-fixed-point=>fixed-point[{tag}]", fp_b, z3.And(*fp_u), cex=cexf, kind="Bellman fixed point is a semi-async fixed point")
    return ob.result()


def run_prng(job, ob):
    """real PRNG: same seed -> same permutations; a fresh sub-key (split from the stored key) per sweep."""
    cfg = dict(S=7, A=2, E=1, ds=1, da=1, de=1, offset=0, prob_array=False, bs=3)
    pb = kit.make_tab(cfg, job["seed"])
    runs = []
    for rep in range(2):
        s = kit.make_solver("savi", pb, max_batch_size=3, shuffle_states=True, random_seed=job["rseed"])
        keys, perms, vals = [], [], []
        orig = s._jitted_shuffle_states

        def rec(key, orig=orig, keys=keys, perms=perms):
            r = orig(key)
            keys.append(np.asarray(jax.random.key_data(key) if hasattr(jax.random, "key_data") and jnp.issubdtype(key.dtype, jax.dtypes.prng_key) else key).tolist())
            perms.append(np.asarray(r[0]).tolist())
            return r
        s._jitted_shuffle_states = rec
        k0 = np.asarray(s.key).tolist()
        for _ in range(3):
            s.solve(1)
            vals.append(np.asarray(s.values).tolist())
        runs.append(dict(k0=k0, keys=keys, perms=perms, vals=vals))
    a, b = runs
    cex = lambda m: dict(kind="prng", rseed=job["rseed"], devices=job["devices"])
    ob.prove("initial-key==PRNGKey(seed)", [], a["k0"] == np.asarray(jax.random.PRNGKey(job["rseed"])).tolist(), cex=cex)
    ob.prove("same-seed-same-permutations", [], a["perms"] == b["perms"] and a["keys"] == b["keys"], cex=cex, kind="sequence of sweeps reproducible from random_seed")
    ob.prove("same-seed-same-values", [], a["vals"] == b["vals"], cex=cex, kind="sequence of sweeps reproducible from random_seed")
    ob.prove("fresh-subkey-per-sweep", [], len(a["keys"]) == 3 and len({tuple(k) for k in a["keys"]}) == 3, cex=cex,
             kind="a new sub-key is drawn for each sweep")
    # the sub-keys are those obtained by splitting the stored key once per sweep
    k = jax.random.PRNGKey(job["rseed"])
    want = []
    for _ in range(3):
        k, sub = jax.random.split(k)
        want.append(np.asarray(sub).tolist())
    ob.prove("subkeys==split-chain", [], a["keys"] == want, cex=cex, kind="permutation drawn from the seeded generator (split chain)")
    ob.prove("permutations-are-permutations", [], all(sorted(p) == list(range(7)) for p in a["perms"]), cex=cex)
    return ob.result()


def finding_key(v):
    return f"{v['job'].get('kind')}:{v['obligation'].split('[')[0]}"


def replay(data):
    c = unq(data["cex"])
    job = data["job"]
    import mdpax.solvers.semi_async_value_iteration as sm
    from ..tab import Tab
    if c["kind"] == "prng":
        ob = Obligations(job)
        run_prng(job, ob)
        return bool(ob.violations), f"{len(ob.violations)} PRNG facts fail for seed {c['rseed']}"
    if c["kind"] == "placement":
        ob = Obligations(job)
        cfg = c["cfg"]
        pb = kit.make_tab(cfg, job["seed"])
        kw = dict(max_batch_size=job["bs"])
        if job.get("perm") is not None:
            kw.update(shuffle_states=True, random_seed=3)
        solver = kit.make_solver("savi", pb, **kw)
        placement_ok(ob, job, pb, solver, job["perm"] if job.get("perm") is not None else list(range(job["S"])))
        return bool(ob.violations), "placement of states in batch slots"
    if c["kind"] == "fixpoint":
        T = np.array(c["T"], dtype=np.int64)
        R, V = (np.array(tofloat(c[x]), dtype=float) for x in ("R", "V"))
        S = T.shape[0]
        pb = Tab(S, 2, 1, T=T, R=R)
        s = kit.make_solver("savi", pb, max_batch_size=c["bs"], gamma=0.9)
        new = np.asarray(s._update_values(s.batched_states, pb.action_space, pb.random_event_space, s.gamma, jnp.asarray(V)))
        Bv = (R[:, :, 0] + 0.9 * V[T[:, :, 0]]).max(-1)
        fu, fb = np.allclose(new, V, atol=1e-9), np.allclose(Bv, V, atol=1e-9)
        return bool(fu != fb), f"update(V)==V: {fu}; B(V)==V: {fb}"
    cfg = c["cfg"]
    T = np.array(c["T"], dtype=np.int64)
    R, P, V = (np.array(tofloat(c[x]), dtype=float) for x in ("R", "P", "V"))
    g = float(c["gamma"])
    S = cfg["S"]
    pb = Tab(S, cfg["A"], cfg["E"], ds=cfg["ds"], offset=cfg["offset"], T=T, R=R, P=P)
    kw = dict(max_batch_size=cfg["bs"])
    perm = c.get("perm")
    if perm is not None:
        kw.update(shuffle_states=True, random_seed=3)
    s = kit.make_solver("savi", pb, **kw)
    s.gamma = jnp.asarray(g)
    if perm is not None:
        with patched(sm, jax=JaxShim(perm)):
            jax.clear_caches()
            s._jitted_shuffle_states = s._shuffle_states
            new = np.asarray(s._update_values(s.batched_states, pb.action_space, pb.random_event_space, s.gamma, jnp.asarray(V)))
    else:
        new = np.asarray(s._update_values(s.batched_states, pb.action_space, pb.random_event_space, s.gamma, jnp.asarray(V)))
    nd, nb, bs = s.batch_processor.batch_shape
    order = perm if perm is not None else list(range(S))
    slots = list(order) + [None] * (nd * nb * bs - S)
    ref = np.zeros(S)
    for d in range(nd):
        carry = V.copy()
        for b in range(nb):
            batch = [x for x in slots[(d * nb + b) * bs:(d * nb + b + 1) * bs] if x is not None]
            Bv = (P * (R + g * carry[T])).sum(-1).max(-1)
            for x in batch:
                ref[x] = Bv[x]
            for x in batch:
                carry[x] = ref[x]
    bad = new.shape != ref.shape or not np.allclose(new, ref, atol=1e-7 * max(1, np.abs(ref).max()))
    return bool(bad), f"semi-async sweep {new} vs block Gauss-Seidel {ref} (partition {nd}x{nb}x{bs}, order {order})"

"""C16 - shipped problems' event probabilities equal the documented distributions."""
from __future__ import annotations

import itertools
from fractions import Fraction

import jax
import jax.numpy as jnp
import numpy as np
import z3

from .. import pathx, probkit, shipped, zx
from ..harness import Obligations, tofloat, unq
from ..probkit import BIN, PA, PB, R, ssum
from ..trace import val_of

ID = "C16"
LEVEL = "model_checking"
FUNCTIONS = ["DeMoorSingleProductPerishable._convert_gamma_parameters/_calculate_demand_probabilities", "MirjaliliPlateletPerishable._setup_before_space_construction/"
             "_calculate_demand_probabilities/_get_multinomial_logits/_calculate_received_order_probabilities/random_event_probability",
             "HendrixTwoProductPerishable._calculate_pu/_calculate_pz/_get_probs_*/random_event_probability/initial_value/_calculate_expected_sales_revenue",
             "Forest.random_event_probability", "<Problem>.initial_value (all four)"]
RULE = ("What a solver can decide is the composition, with the special function itself trusted: each stub records the parameters it was built with "
        "and the points it was evaluated at; the real code's event probabilities are compared, as terms over the stub's symbols, with the documented "
        "formula (De Moor: cdf differences at half-integers, censored tail; Mirjalili: NB(n, 1-n/(n+delta)) censored x multinomial with reversed "
        "logits [0, c0+c1*order]; Hendrix: brute-force joint distribution of units issued under Poisson demands and binomial substitution over the "
        "model's truncated region; Forest: p / 1-p / 0 / 1).")
ASSUMPTIONS = [
    "special functions (gamma cdf, negative binomial / multinomial / Poisson / binomial pmf) are trusted and abstracted as symbols with their contracts",
    "numpyro's NegativeBinomialProbs(total_count=r, probs=q) has mean r*q/(1-q) (its documented parameterisation)",
    "Hendrix: 'up to the mass beyond the model's truncation point' = outcomes with d_b >= max_demand or (B stocked out and d_a + u > max_demand)",
    "exact arithmetic",
]
OUTSIDE = "numerical agreement of numpyro/jax.scipy special functions with scipy; sizes beyond the enumerated ones"
EXPLANATION = "real probability code on symbolic special-function values; identities decided by z3"
JOB_TIMEOUT = {"quick": 2400, "thorough": 7200}


def bounds(tier):
    return {"de_moor": "max_demand 1..8 (30 thorough); mean, CoV symbolic > 0", "mirjalili": "(m,Q,D) up to (3,2,3); n, delta, c0, c1 symbolic; weekdays 0 and 6 (all thorough)",
            "hendrix": "(m,Qa,Qb) in {(1,1,1),(1,2,1),(1,2,2)} (+(2,1,1),(2,2,1) thorough), all stock pairs and events", "forest": "p symbolic"}


def jobs(tier, seed):
    from .C13 import jobs as j13
    out = [dict(j, name="c16-" + j["name"]) for j in j13(tier, seed)]
    out.append(dict(name="initial-values-zero", problem="init0", devices=1, cost=5))
    return out


def run_history(job, ob):
    """concrete leg: the real problem with the real special functions, built after sibling instances in this process,
    evaluated by the same independent computation the replays use"""
    shipped.BUILT_SIBLINGS.clear()
    ok, msg = replay(dict(job=job, cex=dict(p=0.3), obligation=job.get("main_obligation", "")))
    ob.extra["siblings_built"] = len(shipped.BUILT_SIBLINGS)
    ob.prove("siblings-were-built", [], len(shipped.BUILT_SIBLINGS) > 0, kind="history leg is not vacuous", cex=lambda m: dict(history=True))
    ob.prove("holds-after-sibling-instances", [], not ok, cex=lambda m: dict(history=True, p=0.3, msg=msg),
             kind="the property's concrete evaluation on an instance created after sibling instances")
    return ob.result()


def run_job(job):
    ob = Obligations(job, default_timeout_ms=120000)
    if job.get("history"):
        return run_history(job, ob)
    return {"forest": run_forest, "de_moor": run_de_moor, "mirjalili": run_mirjalili, "hendrix": run_hendrix, "init0": run_init0}[job["problem"]](job, ob)


def run_forest(job, ob):
    for o in probkit.forest_tables():
        r = o.value
        p = r["p"]
        cex = lambda m: dict(problem="forest", p=zx.model_value(m, p))
        ob.prove("wait-fire==p", o.pc, zx.eq(r["probs"][(0, 1)], p), cex=cex, kind="P(fire | wait) == p")
        ob.prove("wait-nofire==1-p", o.pc, zx.eq(r["probs"][(0, 0)], 1 - p), cex=cex, kind="P(no fire | wait) == 1-p")
        ob.prove("cut-fire==0", o.pc, zx.eq(r["probs"][(1, 1)], 0), cex=cex, kind="P(fire | cut) == 0")
        ob.prove("cut-nofire==1", o.pc, zx.eq(r["probs"][(1, 0)], 1), cex=cex, kind="P(no fire | cut) == 1")
        a, e = r["a"], r["e"]
        want = zx.ite(zx.eq(a, 0), zx.ite(zx.eq(e, 1), p, 1 - p), zx.ite(zx.eq(e, 1), Fraction(0), Fraction(1)))
        ob.prove("symbolic-action-event", o.pc, zx.eq(r["psym"], want), cex=cex, kind="probability table indexed by (action, event)")
    return ob.result()


def run_de_moor(job, ob):
    D = job["D"]
    for o in probkit.de_moor_tables(D):
        if o.exc is not None:
            from ..harness import exc_origin
            if exc_origin(o.exc) == "harness":
                ob.fail_harness(f"harness raised: {o.exc!r}")
                continue
            ob.fail_harness(f"raised {o.exc!r}")
            continue
        r = o.value
        mean, cov, al, be = r["mean"], r["cov"], r["alpha"], r["beta"]
        call = r["call"]
        F = call["F"]
        cex = lambda m: dict(problem="de_moor", D=D, mean=zx.model_value(m, mean), cov=zx.model_value(m, cov))
        ob.reach("path", o.pc)
        ob.prove("alpha*cov^2==1", o.pc, zx.Z(al) * cov * cov == 1, cex=cex, kind="shape = 1/CoV^2", direct=True)
        ob.prove("alpha/beta==mean", o.pc, zx.Z(al) == mean * zx.Z(be), cex=cex, kind="shape/rate = mean", direct=True)
        args = [pathx.unwrap(a) for a in call["args"]]
        ob.prove("Gamma(alpha,beta)-argument-order", o.pc, len(args) == 2 and not call["kw"] and zx.land(zx.eq(args[0], al), zx.eq(args[1], be)), cex=cex,
                 kind="the gamma distribution is built with (shape, rate) in that order")
        ob.prove("cdf-evaluated-at-half-integers", [], call["x"] == [0.0] + [k + 0.5 for k in range(D + 1)], cex=cex, kind="cdf evaluated at 0, 0.5, 1.5, ..., max+0.5")
        probs = r["probs"]
        ob.prove("p0==F(0.5)", o.pc, zx.eq(probs[0], F[1]), cex=cex, kind="P(0) = F(0.5)")
        for d in range(1, D):
            ob.prove(f"p{d}==F(d+.5)-F(d-.5)", o.pc, zx.eq(probs[d], zx.sub(F[d + 1], F[d])), cex=cex, kind="P(d) = F(d+0.5) - F(d-0.5)")
        ob.prove("pmax==1-F(max-.5)", o.pc, zx.eq(probs[D], zx.sub(1, F[D])), cex=cex, kind="P(max) = 1 - F(max-0.5) (censored tail folded in)")
    return ob.result()


def run_mirjalili(job, ob):
    m, Q, D, w = job["m"], job["Q"], job["D"], job["weekday"]
    for o in probkit.mirjalili_tables(m, Q, D, w):
        if o.exc is not None:
            from ..harness import exc_origin
            if exc_origin(o.exc) == "harness":
                ob.fail_harness(f"harness raised: {o.exc!r}")
                continue
            ob.fail_harness(f"raised {o.exc!r}")
            continue
        r = o.value
        cons, q, comps = probkit.mirjalili_contract(r)
        pre = o.pc
        ob.reach("path", pre)
        n, dl = r["n"][w], r["dl"][w]
        cex = lambda mm: dict(problem="mirjalili", job={k: job[k] for k in ("m", "Q", "D", "weekday")}, n=zx.model_value(mm, n), delta=zx.model_value(mm, dl))
        ob.prove("p==n/(n+delta)", pre, zx.Z(r["p"][w]) * (n + dl) == n, cex=cex, kind="success probability n/(n+delta)", direct=True)
        tc, pr = val_of(r["nb"]["total_count"]).reshape(())[()], val_of(r["nb"]["probs"]).reshape(())[()]
        ob.prove("negbin-total_count==n[weekday]", pre, zx.eq(tc, n), cex=cex, kind="weekday-specific negative binomial: total_count = n[weekday]")
        ob.prove("negbin-mean==delta[weekday]", pre, zx.Z(tc) * zx.Z(pr) == dl * (1 - zx.Z(pr)), cex=cex, kind="weekday-specific negative binomial: mean = delta[weekday]", direct=True)
        ob.prove("negbin-evaluated-at-0..max", [], r["nb"]["xs"] == list(range(D + 1)), cex=cex)
        for a in range(Q + 1):
            call = r["mn"][a]
            lg = list(val_of(call["logits"]).reshape(-1))
            want = [zx.add(r["c0"][i], zx.mul(r["c1"][i], a)) for i in range(m - 1)][::-1] + [0]
            ok = len(lg) == m
            for x, y in zip(lg, want):
                ok = zx.land(ok, zx.eq(x, y))
            ob.prove(f"logits==reverse([0,c0+c1*order])[{a}]", pre, ok, cex=cex, kind="multinomial logits linear in the order size, reversed to the age ordering")
            ob.prove(f"multinomial-total_count==order[{a}]", [], int(np.asarray(call["total_count"]).reshape(-1)[0]) == a, cex=cex)
            for ev in [tuple(int(x) for x in e) for e in r["events"]]:
                d, rec = ev[0], ev[1:]
                pd = q[d] if d < D else 1 - sum(q[:D])          # censored at max_demand
                want_p = zx.mul(pd, R("mn_" + "_".join(map(str, rec)))) if sum(rec) == a else Fraction(0)
                ob.prove(f"event-probability[{a},{ev}]", pre, zx.eq(r["table"][(a, ev)], want_p), cex=cex,
                         kind="P(event) = censored NB demand x multinomial split (0 unless the split sums to the order)")
    return ob.result()


def run_hendrix(job, ob):
    hs = probkit.HendrixSym(job["m"], job["Qa"], job["Qb"])
    pb = hs.pb
    K = hs.K
    ob.prove("truncation-point==documented", [], hs.K_code == hs.K, kind="Hendrix demand truncation point == max_useful_life * (max(order limits) + 2)",
             cex=lambda mm: dict(problem="hendrix", job={k: job[k] for k in ("m", "Qa", "Qb")}, stock=[0, 0], K_code=hs.K_code, K_doc=hs.K))
    K = max(hs.K, hs.K_code)
    sub = [(BIN(x, x), 1 - sum(BIN(u, x) for u in range(x)) if x > 0 else z3.RealVal(1)) for x in range(K + 1)]
    for sa in range(pb.max_stock_a + 1):
        for sb in range(pb.max_stock_b + 1):
            code = hs.event_probs(sa, sb)
            ref, _ = hs.brute_force(sa, sb)
            cex = lambda mm, sa=sa, sb=sb: dict(problem="hendrix", job={k: job[k] for k in ("m", "Qa", "Qb")}, stock=[sa, sb])
            for ev, p in code.items():
                lhs = z3.simplify(z3.substitute(zx.Z(zx.to_real(p)), *sub))
                rhs = z3.simplify(z3.substitute(zx.Z(zx.to_real(ref[ev])), *sub))
                ob.prove(f"joint-issued-distribution[{sa},{sb},{ev}]", [], lhs == rhs, cex=cex, direct=True,
                         kind="P(units issued) == brute force over Poisson demands and binomial substitution (truncated region)")
                if ev[0] > sa or ev[1] > sb:
                    ob.prove(f"zero-beyond-stock[{sa},{sb},{ev}]", [], zx.eq(p, 0), cex=cex, kind="issuing more than the stock has probability 0")
            iv, prices = hs.initial_value(sa, sb)
            want = ssum([zx.mul(code[ev], zx.add(zx.mul(ev[0], prices[0]), zx.mul(ev[1], prices[1]))) for ev in code])
            ob.prove(f"initial_value==expected-revenue[{sa},{sb}]", [], zx.Z(zx.to_real(iv)) == zx.Z(zx.to_real(want)), cex=cex, direct=True,
                     kind="Hendrix initial value == expected one-step sales revenue under that distribution")
    return ob.result()


def run_init0(job, ob):
    for name, kw in (("forest", dict(S=4)), ("de_moor", dict(max_demand=3, max_useful_life=2, lead_time=2, max_order_quantity=2)),
                     ("mirjalili", dict(max_demand=2, max_useful_life=2, max_order_quantity=2))):
        pb = shipped.build(name, **kw)
        v = np.asarray(jax.vmap(pb.initial_value)(pb.state_space))
        ob.prove(f"initial_value==0[{name}]", [], bool((v == 0).all()), cex=lambda m, name=name: dict(problem="init0", name=name), kind="initial value estimates are zero")
    return ob.result()


def finding_key(v):
    return f"{v['job'].get('problem')}:{v['obligation'].split('[')[0]}"


def replay(data):
    """compare the real problem (real special functions) with an independent scipy computation"""
    import scipy.stats as st
    job = data["job"]
    if job.get("history") and not shipped.HISTORY:
        with shipped.history():
            return replay(data)
    p = job["problem"]
    bad = []
    if p == "forest":
        pb = shipped.build("forest", S=3, p=0.3)
        got = [[float(pb.random_event_probability(jnp.array([1]), jnp.array([a]), jnp.array([e]))) for e in (0, 1)] for a in (0, 1)]
        if not np.allclose(got, [[0.7, 0.3], [1, 0]]):
            bad.append(got)
    elif p == "de_moor":
        D = job["D"]
        for mean, cov in itertools.product((0.7, 4.0), (0.3, 1.5)):
            pb = shipped.build("de_moor", max_demand=D, demand_gamma_mean=mean, demand_gamma_cov=cov, max_useful_life=2, lead_time=1, max_order_quantity=1)
            g = st.gamma(a=1 / cov ** 2, scale=mean * cov ** 2)
            ref = np.diff(g.cdf(np.hstack([0, np.arange(0.5, D + 1.5)])))
            ref[-1] += 1 - ref.sum()
            if not np.allclose(np.asarray(pb.demand_probabilities), ref, atol=1e-6):
                bad.append((mean, cov, np.asarray(pb.demand_probabilities).tolist(), ref.tolist()))
    elif p == "mirjalili":
        m, Q, D, w = job["m"], job["Q"], job["D"], job["weekday"]
        pb = shipped.build("mirjalili", max_useful_life=m, max_order_quantity=Q, max_demand=D)
        n, dl = float(pb.weekday_demand_negbin_n[w]), float(pb.weekday_demand_negbin_delta[w])
        pd = st.nbinom(n, n / (n + dl)).pmf(np.arange(D + 1))
        pd[-1] += 1 - pd.sum()
        c0, c1 = np.asarray(pb.useful_life_at_arrival_distribution_c_0), np.asarray(pb.useful_life_at_arrival_distribution_c_1)
        state = jnp.array([w] + [0] * (m - 1))
        for a in range(Q + 1):
            lg = np.hstack([0, c0 + c1 * a])[::-1]
            pm = np.exp(lg) / np.exp(lg).sum()
            for ev in np.asarray(pb.random_event_space):
                d, rec = int(ev[0]), [int(x) for x in ev[1:]]
                want = pd[d] * st.multinomial(a, pm).pmf(rec) if sum(rec) == a else 0.0
                got = float(np.asarray(pb.random_event_probability(state, jnp.array([a]), jnp.asarray(ev))).reshape(-1)[0])
                if abs(got - want) > 1e-6:
                    bad.append((a, ev.tolist(), got, want))
    elif p == "hendrix":
        m, Qa, Qb = job["m"], job["Qa"], job["Qb"]
        ma, mb, sp = 0.8, 0.6, 0.3
        pb = shipped.build("hendrix", max_useful_life=m, max_order_quantity_a=Qa, max_order_quantity_b=Qb, demand_poisson_mean_a=ma, demand_poisson_mean_b=mb,
                           substitution_probability=sp)
        if data["obligation"].startswith("truncation-point") and int(pb.max_demand) != m * (max(Qa, Qb) + 2):
            bad.append(("max_demand", int(pb.max_demand), "documented", m * (max(Qa, Qb) + 2)))
        for s in np.asarray(pb.state_space):
            sa, sb = int(s[:m].sum()), int(s[m:].sum())
            # documented joint distribution of units issued, restricted to the model's documented truncation region
            # (d_b < K; when B is sold out also d_a + substituted demand <= K), K = max_useful_life * (max(order limits) + 2)
            K = m * (max(Qa, Qb) + 2)
            ref = np.zeros((pb.max_stock_a + 1, pb.max_stock_b + 1))
            for db in range(K):
                if db < sb:
                    for da in range(200):
                        ref[min(da, sa), db] += st.poisson.pmf(da, ma) * st.poisson.pmf(db, mb)
                else:
                    x = db - sb
                    for u in range(x + 1):
                        for da in range(K + 1 - u):
                            ref[min(da + u, sa), sb] += st.poisson.pmf(da, ma) * st.poisson.pmf(db, mb) * st.binom.pmf(u, x, sp)
            got = np.asarray(jax.vmap(pb.random_event_probability, in_axes=(None, None, 0))(jnp.asarray(s), jnp.array([0, 0]), pb.random_event_space)).reshape(ref.shape)
            if np.abs(got - ref).max() > 1e-7:
                bad.append((s.tolist(), float(np.abs(got - ref).max())))
            iv = float(pb.initial_value(jnp.asarray(s)))
            rev = float((got * (np.arange(ref.shape[0])[:, None] * float(pb.sales_prices[0]) + np.arange(ref.shape[1])[None, :] * float(pb.sales_prices[1]))).sum())
            if abs(iv - rev) > 1e-6:
                bad.append(("initial_value", s.tolist(), iv, rev))
    else:
        ob = Obligations(job)
        run_init0(job, ob)
        bad = ob.violations
    return bool(bad), f"{job['name']}: " + (f"differs from the independent computation: {str(bad[:2])[:300]}" if bad else "agrees with scipy")

"""C13 - shipped problems define a probability distribution for every state-action pair."""
from __future__ import annotations

import itertools
from fractions import Fraction

import jax
import jax.numpy as jnp
import numpy as np
import z3

from .. import pathx, probkit, shipped, zx
from ..harness import Obligations, tofloat, unq
from ..probkit import BIN, PA, PB, R, ssum

ID = "C13"
LEVEL = "model_checking"
FUNCTIONS = ["Forest.__init__/random_event_probability", "DeMoorSingleProductPerishable._convert_gamma_parameters/_calculate_demand_probabilities/random_event_probability",
             "MirjaliliPlateletPerishable._setup_before_space_construction/_calculate_demand_probabilities/_calculate_received_order_probabilities/"
             "_get_multinomial_logits/random_event_probability/_construct_random_event_space",
             "HendrixTwoProductPerishable._calculate_pu/_calculate_pz/_get_probs_* (four cases)/random_event_probability"]
RULE = ("Special functions are replaced by contract stubs returning symbols (gamma cdf: non-decreasing in [0,1]; negative binomial / Poisson pmf: "
        ">= 0 with total mass <= 1 up to the truncation point; multinomial / binomial pmf: >= 0 summing to 1 over the support). The real table "
        "construction and random_event_probability run on those symbols; per state-action class: every event probability >= 0 and the sum over "
        "all events == 1 (Hendrix: == 1 minus the characterised truncation loss).")
ASSUMPTIONS = [
    "exact arithmetic: the property's 1e-4 tolerance and 'finite' concern rounding and are outside the claim",
    "the special functions satisfy their defining contracts (listed above); their numerical values are trusted",
    "sizes (max_demand, order limits, useful life) are enumerated; continuous parameters (means, CoV, n, delta, logit coefficients, "
    "fire probability, substitution probability) are covered for ALL values through the contracts",
    "Hendrix: the mass of outcomes with d_b >= max_demand, or with B stocked out and d_a + substitution demand > max_demand, is dropped by the model's "
    "truncated tables; the identity proved is sum + P(dropped region) == 1 with the dropped region written out by the reference",
]
OUTSIDE = "float rounding; numerical accuracy of numpyro/scipy special functions; sizes beyond the enumerated ones"
EXPLANATION = "real probability code on symbolic pmf/cdf values; linear / polynomial identities and sign conditions decided by z3"
JOB_TIMEOUT = {"quick": 2400, "thorough": 7200}


def bounds(tier):
    return {"forest": "p symbolic in [0,1]", "de_moor": "max_demand 1..8 (30 thorough), mean/CoV symbolic", "mirjalili": "(m,Q,D) up to (3,2,3) [(3,3,3) thorough], all 7 weekdays",
            "hendrix": "(m,Qa,Qb) in {(1,1,1),(1,2,1),(1,1,2),(1,2,2)}; thorough adds (2,1,1),(2,2,1) for the identity sum + dropped == 1 only "
                       "(sign conditions at useful life 2 are not decided by z3's NRA within budget: outside the claim); all total-stock pairs"}


def jobs(tier, seed):
    out = [dict(name="forest", problem="forest", devices=1, cost=1)]
    for D in ((1, 2, 3, 5, 8) if tier == "quick" else (1, 2, 3, 5, 8, 13, 30)):
        out.append(dict(name=f"de_moor-D{D}", problem="de_moor", D=D, devices=1, cost=D))
    for (m, Q, D) in ([(1, 1, 1), (2, 2, 2), (3, 2, 3)] if tier == "quick" else [(1, 1, 1), (2, 2, 2), (3, 2, 3), (2, 3, 3), (3, 3, 3), (4, 2, 2)]):
        for w in ((0, 6) if tier == "quick" else range(7)):
            out.append(dict(name=f"mirjalili-m{m}-Q{Q}-D{D}-wd{w}", problem="mirjalili", m=m, Q=Q, D=D, weekday=w, devices=1, cost=5 * m * Q * D))
    for (m, Qa, Qb) in ([(1, 1, 1), (1, 2, 1), (1, 1, 2), (1, 2, 2)] if tier == "quick" else [(1, 1, 1), (1, 2, 1), (1, 2, 2), (1, 1, 2), (2, 1, 1), (2, 2, 1)]):
        # useful life 2: the sign conditions are degree-4 polynomial inequalities in ~40 symbols that z3's NRA does not
        # decide within the job budget; only the (polynomial identity) sum + dropped == 1 is claimed there
        out.append(dict(name=f"hendrix-m{m}-Qa{Qa}-Qb{Qb}", problem="hendrix", m=m, Qa=Qa, Qb=Qb, signs=(m == 1), devices=1, cost=60 * m * Qa * Qb))
    # concrete leg: instances created after sibling instances (one parameter changed each) in the same process
    out.append(dict(name="after-siblings-forest", problem="forest", history=True, devices=1, cost=5))
    out.append(dict(name="after-siblings-de_moor-D3", problem="de_moor", D=3, history=True, devices=1, cost=30))
    out.append(dict(name="after-siblings-mirjalili-m2-Q2-D2", problem="mirjalili", m=2, Q=2, D=2, weekday=1, history=True, devices=1, cost=30))
    out.append(dict(name="after-siblings-hendrix-m1-Qa2-Qb1", problem="hendrix", m=1, Qa=2, Qb=1, history=True, main_obligation="sum+dropped==1", devices=1, cost=60))
    return out


def run_history(job, ob):
    """concrete leg: the real problem with the real special functions, built after sibling instances in this process,
    evaluated by the same independent computation the replays use"""
    shipped.BUILT_SIBLINGS.clear()
    ok, msg = replay(dict(job=job, cex=dict(p=0.3), obligation=job.get("main_obligation", "")))
    ob.extra["siblings_built"] = len(shipped.BUILT_SIBLINGS)
    ob.prove("siblings-were-built", [], len(shipped.BUILT_SIBLINGS) > 0, kind="history leg is not vacuous", cex=lambda m: dict(history=True))
    ob.prove("holds-after-sibling-instances", [], not ok, cex=lambda m: dict(history=True, p=0.3, msg=msg),
             kind="the property's concrete evaluation on an instance created after sibling instances")
    return ob.result()


def run_job(job):
    ob = Obligations(job, default_timeout_ms=120000)
    if job.get("history"):
        return run_history(job, ob)
    return {"forest": run_forest, "de_moor": run_de_moor, "mirjalili": run_mirjalili, "hendrix": run_hendrix}[job["problem"]](job, ob)


def run_forest(job, ob):
    for o in probkit.forest_tables():
        if o.exc is not None:
            from ..harness import exc_origin
            if exc_origin(o.exc) == "harness":
                ob.fail_harness(f"harness raised: {o.exc!r}")
                continue
            ob.fail_harness(f"raised {o.exc!r}")
            continue
        r = o.value
        ob.reach("path", o.pc)
        cex = lambda m: dict(problem="forest", p=zx.model_value(m, r["p"]))
        for a in (0, 1):
            for e in (0, 1):
                ob.prove(f"nonneg[{a},{e}]", o.pc, zx.ge(r["probs"][(a, e)], 0), cex=cex, kind="event probability >= 0")
            ob.prove(f"sum==1[{a}]", o.pc, zx.eq(zx.add(r["probs"][(a, 0)], r["probs"][(a, 1)]), 1), cex=cex, kind="event probabilities sum to 1")
        ob.prove("nonneg-symbolic-action-event", o.pc, zx.ge(r["psym"], 0), cex=cex, kind="event probability >= 0")
    return ob.result()


def run_de_moor(job, ob):
    D = job["D"]
    for o in probkit.de_moor_tables(D):
        if o.exc is not None:
            from ..harness import exc_origin
            if exc_origin(o.exc) == "harness":
                ob.fail_harness(f"harness raised: {o.exc!r}")
                continue
            ob.fail_harness(f"raised {o.exc!r}")
            continue
        r = o.value
        pre = o.pc + probkit.de_moor_contract(r["call"])
        ob.reach("path", pre)
        cex = lambda m: dict(problem="de_moor", D=D, F=[zx.model_value(m, f) for f in r["call"]["F"]])
        ob.prove("event-count", [], r["n_events"] == D + 1 and len(r["probs"]) == D + 1, cex=cex)
        for d in range(D + 1):
            ob.prove(f"nonneg[{d}]", pre, zx.ge(r["probs"][d], 0), cex=cex, kind="event probability >= 0")
        ob.prove("sum==1", pre, zx.eq(ssum(r["probs"]), 1), cex=cex, kind="event probabilities sum to 1")
    return ob.result()


def run_mirjalili(job, ob):
    for o in probkit.mirjalili_tables(job["m"], job["Q"], job["D"], job["weekday"]):
        if o.exc is not None:
            from ..harness import exc_origin
            if exc_origin(o.exc) == "harness":
                ob.fail_harness(f"harness raised: {o.exc!r}")
                continue
            ob.fail_harness(f"raised {o.exc!r}")
            continue
        r = o.value
        cons, q, comps = probkit.mirjalili_contract(r)
        pre = o.pc + cons
        ob.reach("path", pre)
        cex = lambda m: dict(problem="mirjalili", job={k: job[k] for k in ("m", "Q", "D", "weekday")},
                             q=[zx.model_value(m, x) for x in q])
        events = [tuple(int(x) for x in ev) for ev in r["events"]]
        ob.prove("event-space-lists-each-event-once", [], len(set(events)) == len(events) and
                 set(events) == {(d,) + c for d in range(job["D"] + 1) for c in itertools.product(range(job["Q"] + 1), repeat=job["m"]) if sum(c) <= job["Q"]},
                 cex=cex, kind="event space = demands x receipt splits with sum <= order limit, each once")
        for a in range(job["Q"] + 1):
            tot = Fraction(0)
            for ev in events:
                p = r["table"][(a, ev)]
                tot = zx.add(tot, p)
                if zx.is_z(p):
                    ob.prove(f"nonneg[{a},{ev}]", pre, zx.ge(p, 0), cex=cex, kind="event probability >= 0", direct=True)
            # sum over all events == 1: with the two normalisation contracts substituted the claim is a polynomial identity
            cs, ms = comps[a]
            sub = [(ms[-1], 1 - sum(ms[:-1]))] if len(ms) > 1 else [(ms[0], z3.RealVal(1))]
            ident = z3.simplify(z3.substitute(zx.Z(tot), *sub))
            ob.prove(f"sum==1[{a}]", [], ident == 1, cex=cex, kind="event probabilities sum to 1 (identity with contracts substituted)", direct=True)
    return ob.result()


def run_hendrix(job, ob):
    hs = probkit.HendrixSym(job["m"], job["Qa"], job["Qb"])
    pb = hs.pb
    cons = hs.contract()
    K = hs.K
    ob.extra["max_demand"] = K
    for sa in range(pb.max_stock_a + 1):
        for sb in range(pb.max_stock_b + 1):
            code = hs.event_probs(sa, sb)
            ref, dropped = hs.brute_force(sa, sb)
            cex = lambda m, sa=sa, sb=sb: dict(problem="hendrix", job={k: job[k] for k in ("m", "Qa", "Qb")}, stock=[sa, sb],
                                               pa=[zx.model_value(m, PA(k)) for k in range(K + 1)], pb=[zx.model_value(m, PB(k)) for k in range(K + 1)],
                                               bin={f"{u}_{x}": zx.model_value(m, BIN(u, x)) for x in range(K + 1) for u in range(x + 1)})
            tot = Fraction(0)
            for ev, p in code.items():
                tot = zx.add(tot, p)
                if zx.is_z(p) and job.get("signs", True):
                    ob.prove(f"nonneg[{sa},{sb},{ev}]", cons, zx.ge(p, 0), cex=cex, kind="event probability >= 0", direct=True, timeout_ms=30000)
            # identity: sum over events + mass of the dropped outcome region == 1 (binomial rows substituted so that it is polynomial)
            sub = []
            for x in range(K + 1):
                sub.append((BIN(x, x), 1 - sum(BIN(u, x) for u in range(x)) if x > 0 else z3.RealVal(1)))
            lhs = z3.simplify(z3.substitute(zx.Z(zx.add(tot, dropped)), *sub))
            ob.prove(f"sum+dropped==1[{sa},{sb}]", [], lhs == 1, cex=cex, kind="sum over events == 1 - mass of the model's truncated outcome region", direct=True)
            # the property as stated: the probabilities sum to one.  Known not to hold for Hendrix (truncated tables), see known_findings.json
            if job.get("signs", True):
                ob.prove(f"sum==1[{sa},{sb}]", cons, zx.eq(dropped, 0), cex=cex, kind="event probabilities sum to 1", direct=True, timeout_ms=30000)
                ob.prove(f"no-duplicated-mass[{sa},{sb}]", cons, zx.le(tot, 1), cex=cex, kind="sum over events <= 1", direct=True, timeout_ms=30000)
    return ob.result()


def finding_key(v):
    return f"{v['job'].get('problem')}:{v['obligation'].split('[')[0]}"


def replay(data):
    """evaluate the real problem with real special functions at parameters realising the counterexample where possible"""
    c = unq(data["cex"]) or {}
    job = data["job"]
    if job.get("history") and not shipped.HISTORY:
        with shipped.history():
            return replay(data)
    p = job["problem"]
    if p == "forest":
        pb = shipped.build("forest", S=3, p=float(c["p"]))
        probs = np.array([[float(pb.random_event_probability(jnp.array([1]), jnp.array([a]), jnp.array([e]))) for e in (0, 1)] for a in (0, 1)])
        return bool((probs < 0).any() or (np.abs(probs.sum(1) - 1) > 1e-9).any()), f"forest p={float(c['p'])}: {probs.tolist()}"
    # for the stubbed problems a counterexample assigns values to the special function; replay checks the real problem on a parameter grid
    bad = []
    if p == "de_moor":
        for mean, cov in itertools.product((0.5, 4.0, 20.0), (0.1, 0.5, 2.0)):
            pb = shipped.build("de_moor", max_demand=job["D"], demand_gamma_mean=mean, demand_gamma_cov=cov, max_useful_life=2, lead_time=1, max_order_quantity=1)
            pr = np.asarray(pb.demand_probabilities)
            if (pr < -1e-12).any() or abs(pr.sum() - 1) > 1e-6:
                bad.append((mean, cov, pr.sum()))
    elif p == "mirjalili":
        pb = shipped.build("mirjalili", max_useful_life=job["m"], max_order_quantity=job["Q"], max_demand=job["D"])
        st = jnp.array([job["weekday"]] + [0] * (job["m"] - 1))
        for a in range(job["Q"] + 1):
            pr = np.asarray(jax.vmap(pb.random_event_probability, in_axes=(None, None, 0))(st, jnp.array([a]), pb.random_event_space))
            if (pr < -1e-12).any() or abs(pr.sum() - 1) > 1e-4:
                bad.append((a, float(pr.sum())))
    else:
        import scipy.stats as st
        hs_m, Qa, Qb = job["m"], job["Qa"], job["Qb"]
        kind = data["obligation"].split("[")[0]
        for ma, mb, sp in itertools.product((0.5, 2.0, 9.0), (0.5, 2.0, 9.0), (0.0, 0.3, 1.0)):
            pb = shipped.build("hendrix", max_useful_life=hs_m, max_order_quantity_a=Qa, max_order_quantity_b=Qb, demand_poisson_mean_a=ma, demand_poisson_mean_b=mb,
                               substitution_probability=sp)
            K = hs_m * (max(Qa, Qb) + 2)   # documented truncation point (the known finding is about exactly this one)
            if kind == "truncation-point==documented":
                if int(pb.max_demand) != K:
                    bad.append((Qa, Qb, int(pb.max_demand), K))
                break
            pr = np.asarray(jax.vmap(jax.vmap(pb.random_event_probability, in_axes=(None, None, 0)), in_axes=(0, None, None))(
                pb.state_space, jnp.array([0, 0]), pb.random_event_space))
            pa, pbm = st.poisson.pmf(np.arange(K + 1), ma), st.poisson.pmf(np.arange(K + 1), mb)
            for i, stt in enumerate(np.asarray(pb.state_space)):
                sb = int(stt[hs_m:].sum())
                tot = float(pr[i].sum())
                dropped = 1.0 - pbm[:K].sum()
                for db in range(sb, K):
                    x = db - sb
                    kept = sum(pa[da] * st.binom.pmf(u, x, sp) for u in range(x + 1) for da in range(K + 1) if da + u <= K)
                    dropped += pbm[db] * (1.0 - kept)
                if kind == "nonneg":
                    wrong = (not np.isfinite(pr[i]).all()) or (pr[i] < -1e-12).any()
                elif kind == "sum==1":
                    wrong = (not np.isfinite(tot)) or abs(tot - 1) > 1e-4
                else:
                    wrong = (not np.isfinite(tot)) or abs(tot + dropped - 1) > 1e-6 or tot > 1 + 1e-9
                if wrong:
                    bad.append((ma, mb, sp, stt.tolist(), tot, float(dropped)))
                    break
    return bool(bad), f"{job['name']}: " + (f"real special functions: fails at (parameters..., state, sum, dropped mass) {bad[:2]}" if bad else "real special functions: holds on the parameter grid")

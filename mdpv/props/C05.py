"""C05 - policy iteration: evaluation is accurate and termination means policy stability."""
from __future__ import annotations

import itertools
from fractions import Fraction

import jax
import jax.numpy as jnp
import numpy as np
import z3

from .. import kit, pathx, zx
from ..harness import Obligations, tofloat, unq
from ..trace import SymTracer, lift, sym, symbolic, val_of
from .C08 import shadowed
from .C01 import exact_eval

ID = "C05"
LEVEL = "model_checking"
FUNCTIONS = ["PolicyIteration._calculate_policy_values (+ _calculate_policy_value_state_batch, pmap/scan)", "PolicyIteration._evaluate_policy",
             "PolicyIteration._iteration_step", "PolicyIteration.solve", "PolicyIteration._initialize_policy/_initialize_solver_state_elements",
             "ValueIteration._extract_policy (as used by PI)", "Problem.initial_policy"]
RULE = ("Jobs: (a) one evaluation step vs T_pi for symbolic policy/values/tables; (b) _evaluate_policy with max_eval_iter 1..3 and both "
        "reset options from arbitrary values, all successor structures substituted, V_pi by its linear system; (c) solve(1) with the "
        "evaluation result and the improved policy symbolic: break taken iff no component of any state's action vector changed; "
        "(d) returned policy greedy for returned values; (e) first evaluated policy = problem.initial_policy rows, else argmax of "
        "immediate expected reward.")
ASSUMPTIONS = ["0 < gamma < 1 (grid 9/10 or 1/2 where linear arithmetic is needed), epsilon > 0; floats as reals",
               "policies range over rows of the action space (action vectors of dimension 1 and 2)",
               "(c) abstracts evaluation/improvement results as unconstrained symbols: sound, the claim is about the comparison"]
OUTSIDE = "S > 3, max_eval_iter > 3, action dimension > 2"
EXPLANATION = "real PI methods under the z3-valued trace / path explorer"
JOB_TIMEOUT = {"quick": 1800, "thorough": 5400}


def bounds(tier):
    return {"step": "S<=3, A in {2,4}, da in {1,2}, E in {1,2}, bs in {1,2,S+1}, devices {1,2}", "evaluate": "S=2 A=2 (all 16 structures), max_eval_iter 1..3, reset on/off, gamma 9/10 (and 1/2 thorough), span + max_diff",
            "stability": "S in {2,3}, da in {1,2}"}


def jobs(tier, seed):
    out = []
    for (S, A, E, da, bs, dv) in [(2, 2, 1, 1, 1, 1), (3, 2, 2, 1, 2, 1), (3, 4, 1, 2, 2, 1), (3, 4, 2, 2, 4, 2), (2, 4, 1, 2, 64, 2)]:
        out.append(dict(name=f"step-S{S}A{A}E{E}-da{da}-bs{bs}-dev{dv}", kind="step", S=S, A=A, E=E, da=da, bs=bs, devices=dv, seed=seed, cost=S * A * E))
    for test in ("max_diff", "span"):
        for mei in (1, 2, 3):
            for reset in (False, True):
                for gm in (("9/10",) if tier == "quick" else ("9/10", "1/2")):
                    out.append(dict(name=f"evaluate-{test}-mei{mei}-reset{int(reset)}-g{gm}", kind="evaluate", test=test, mei=mei, reset=reset,
                                    gamma=gm, devices=1, seed=seed, cost=10 * mei))
    for (S, da) in [(2, 1), (2, 2), (3, 2)]:
        out.append(dict(name=f"stability-S{S}-da{da}", kind="stability", S=S, da=da, devices=1, seed=seed, cost=5))
    for (S, A, E, da) in [(2, 2, 2, 1), (3, 4, 1, 2)]:
        out.append(dict(name=f"greedy-S{S}A{A}E{E}-da{da}", kind="greedy", S=S, A=A, E=E, da=da, devices=1, seed=seed, cost=8))
        # concrete probabilities and discount factor: everything is linear in rewards and values, so comparisons with
        # tolerances inside the improvement step stay decidable
        out.append(dict(name=f"greedy-linear-S{S}A{A}E{E}-da{da}", kind="greedy", linear=True, S=S, A=A, E=E, da=da, devices=1, seed=seed, cost=8))
        out.append(dict(name=f"initial-S{S}A{A}E{E}-da{da}", kind="initial", S=S, A=A, E=E, da=da, devices=1, seed=seed, cost=8))
    return out


class _Stop(Exception):
    pass


def policy_sym(pb, S, da, name="PI"):
    policy = sym(name, (S, da), "int")
    asp = np.asarray(pb.action_space)
    for k in range(da):
        for t in policy.val[:, k]:
            pathx.CUR.assume(zx.declare_bounds(t, int(asp[:, k].min()), int(asp[:, k].max())))
    return policy


def run_job(job):
    ob = Obligations(job, default_timeout_ms=120000)
    return {"step": run_step, "evaluate": run_evaluate, "stability": run_stability, "greedy": run_greedy, "initial": run_initial}[job["kind"]](job, ob)


def run_step(job, ob):
    S, A, E, da = job["S"], job["A"], job["E"], job["da"]
    cfg = dict(S=S, A=A, E=E, ds=1, da=da, de=1, offset=1 if S == 3 else 0, bs=job["bs"])
    pb = kit.make_tab(cfg, job["seed"])
    solver = kit.make_solver("pi", pb, max_batch_size=job["bs"], max_eval_iter=1)
    ex = pathx.Explorer()
    h = {}

    def run():
        with symbolic():
            L = h["L"] = kit.Lifted(pb)
            pathx.CUR.assume(z3.And(*L.pre))
            policy = policy_sym(pb, S, da)
            V = sym("V", (S,))
            solver.gamma = sym("gamma")
            pv = solver._calculate_policy_values(policy, V)
            return val_of(pv), val_of(policy), val_of(V), val_of(solver.gamma)[()]
    for o in ex.explore(run):
        if o.exc is not None:
            from ..harness import exc_origin
            if exc_origin(o.exc) == "harness":
                ob.fail_harness(f"harness raised: {o.exc!r}")
                continue
            ob.fail_harness(f"raised: {o.exc!r}")
            continue
        pv, policy, V, g = o.value
        L = h["L"]
        ob.reach("path", o.pc)
        Q = kit.q_values(L, V, g)
        asp = np.asarray(pb.action_space)
        ob.prove("shape", [], pv.shape == (S,))
        for i in range(S):
            member, idx = kit.policy_row_index(list(policy[i]), asp)
            ob.prove(f"step==T_pi[{i}]", o.pc + ([member] if zx.is_z(member) else []), zx.eq(pv[i], kit.lookup(Q[i], idx)),
                     kind="one evaluation step == one-step expected value under the state's own policy action",
                     cex=lambda m, i=i: dict(kind="step", state=i, cfg=cfg, T=kit.model_array(m, L.T), R=kit.model_array(m, L.R), P=kit.model_array(m, L.P),
                                             V=kit.model_array(m, V), gamma=zx.model_value(m, g), policy=kit.model_array(m, policy)))
    return ob.result()


def run_evaluate(job, ob):
    S, A, E = 2, 2, 1
    a_, b_ = job["gamma"].split("/")
    gam = Fraction(int(a_), int(b_))
    eps = z3.Real("eps")
    cfg = dict(S=S, A=A, E=E, ds=1, da=1, de=1, offset=0, bs=2)
    ex = pathx.Explorer(max_paths=100)
    h = {}

    def run():
        pb = kit.make_tab(cfg, job["seed"])
        solver = kit.make_solver("pi", pb, max_batch_size=2, max_eval_iter=job["mei"], convergence_test=job["test"],
                                 reset_values_for_each_policy_eval=job["reset"])
        with symbolic():
            L = h["L"] = kit.Lifted(pb, lift_P=False)
            pathx.CUR.assume(z3.And(*(L.pre + [eps > 0])))
            policy = policy_sym(pb, S, 1)
            start = sym("V", (S,))
            if job["reset"]:
                solver.initial_values = start
                solver.values = sym("Vother", (S,))
            else:
                solver.values = start
            solver.gamma = lift(zx.Z(gam))
            solver.epsilon = lift(eps)
            solver._setup_convergence_testing()
            outs = []
            orig = solver._calculate_policy_values

            def calc(p, v):
                o_ = orig(p, v)
                outs.append(o_)
                return o_
            solver._calculate_policy_values = calc
            res = solver._evaluate_policy(policy)
            return dict(res=val_of(res), eval_break=len(outs) > 0 and res is not outs[-1], ncalls=len(outs), policy=val_of(policy),
                        V=val_of(start), aspace=np.asarray(pb.action_space))
    with shadowed():
        outs = list(ex.explore(run))
    ob.extra["paths"] = len(outs)
    L = h["L"]
    Tvars = list(L.Tvec.reshape(-1))
    gz = zx.Z(gam)
    Vp = [z3.Real(f"Vp{i}") for i in range(S)]
    nbreak = 0
    for pi_, o in enumerate(outs):
        if o.exc is not None:
            from ..harness import exc_origin
            if exc_origin(o.exc) == "harness":
                ob.fail_harness(f"harness raised: {o.exc!r}")
                continue
            ob.fail_harness(f"raised: {o.exc!r}")
            continue
        r = o.value
        ob.prove(f"budget-respected[path{pi_}]", [], r["ncalls"] <= job["mei"], kind="at most max_eval_iter evaluation sweeps")
        if not r["eval_break"]:
            continue
        nbreak += 1
        pcz = z3.And(*[c for c in o.pc if zx.is_z(c)])
        for Tt in itertools.product(range(S), repeat=S * A * E):
            Tc = np.array(Tt).reshape(S, A, E)
            sub = [(Tvars[k], z3.IntVal(int(Tt[k]))) for k in range(len(Tvars))]
            pcs = z3.simplify(z3.substitute(pcz, *sub))
            if z3.is_false(pcs):
                continue
            cons = [pcs]
            for i in range(S):
                member, idx = kit.policy_row_index(list(r["policy"][i]), r["aspace"])
                e_ = zx.Z(L.R[i, A - 1, 0]) + gz * Vp[int(Tc[i, A - 1, 0])]
                for a in range(A - 2, -1, -1):
                    e_ = z3.If(zx.Z(idx) == a, zx.Z(L.R[i, a, 0]) + gz * Vp[int(Tc[i, a, 0])], e_)
                cons.append(Vp[i] == e_)
            tag = "".join(map(str, Tt))
            if job["test"] == "max_diff":
                for i in range(S):
                    W = z3.simplify(z3.substitute(zx.Z(r["res"][i]), *sub))
                    ob.prove(f"eval-accuracy[path{pi_},{tag},{i}]", cons, z3.And(W - Vp[i] <= eps / gz, Vp[i] - W <= eps / gz),
                             kind="|evaluate(pi) - V_pi| <= eps/gamma on convergence (max_diff)",
                             cex=lambda m, Tc=Tc, r=r: dict(kind="evaluate", T=Tc, R=kit.model_array(m, L.R), V=kit.model_array(m, r["V"]),
                                                            policy=kit.model_array(m, r["policy"]), eps=zx.model_value(m, eps), gamma=gam))
            else:
                # span test: returned values differ from V_pi by (almost) a constant: sp(values - V_pi) <= eps/gamma
                W = [z3.simplify(z3.substitute(zx.Z(r["res"][i]), *sub)) for i in range(S)]
                d = [W[i] - Vp[i] for i in range(S)]
                for i, j in itertools.permutations(range(S), 2):
                    ob.prove(f"eval-accuracy-span[path{pi_},{tag},{i}{j}]", cons, d[i] - d[j] <= eps / gz,
                             kind="span(evaluate(pi) - V_pi) <= eps/gamma on convergence (span)",
                             cex=lambda m, Tc=Tc, r=r: dict(kind="evaluate", T=Tc, R=kit.model_array(m, L.R), V=kit.model_array(m, r["V"]),
                                                            policy=kit.model_array(m, r["policy"]), eps=zx.model_value(m, eps), gamma=gam))
    ob.prove("a-converged-evaluation-path-exists", [], nbreak >= 1)
    return ob.result()


def run_stability(job, ob):
    """solve(1) with symbolic evaluation result and symbolic improved policy: break iff nothing changed."""
    S, da = job["S"], job["da"]
    A = 2 if da == 1 else 4
    cfg = dict(S=S, A=A, E=1, ds=1, da=da, de=1, offset=0, bs=2)
    ex = pathx.Explorer(max_paths=50)

    def run():
        pb = kit.make_tab(cfg, job["seed"])
        solver = kit.make_solver("pi", pb, max_batch_size=2, max_eval_iter=1)
        with symbolic():
            old = policy_sym(pb, S, da, "OLD")
            new = policy_sym(pb, S, da, "NEW")
            solver.policy = old
            W = sym("W", (S,))
            solver._evaluate_policy = lambda policy, starting_values=None: W
            solver._extract_policy = lambda *a, **k: new
            improved = []
            orig_step = solver._iteration_step

            def step(*a, **k):
                r_ = orig_step(*a, **k)
                improved.append(val_of(r_[0]))   # the policy the improvement step of the code under test produced
                return r_
            solver._iteration_step = step
            from loguru import logger
            msgs = []
            hid = logger.add(lambda m: msgs.append(str(m)), level="INFO")
            try:
                st = solver.solve(2)
            finally:
                logger.remove(hid)
            return dict(old=val_of(old), new=val_of(new), it=st.info.iteration, reported=any("Policy converged" in m for m in msgs),
                        pol=val_of(st.policy), W=val_of(W), improved=improved)
    with shadowed():
        outs = list(ex.explore(run))
    seen = set()
    for pi_, o in enumerate(outs):
        if o.exc is not None:
            from ..harness import exc_origin
            if exc_origin(o.exc) == "harness":
                ob.fail_harness(f"harness raised: {o.exc!r}")
                continue
            ob.fail_harness(f"raised: {o.exc!r}")
            continue
        r = o.value
        # "an improvement step changes no state's action vector in any component": the step's own result against the incumbent
        # (the extraction stub's output is only an input to that step: a solver may legitimately keep the incumbent on ties)
        same = True
        for i in range(S):
            for k in range(da):
                same = zx.land(same, zx.eq(r["old"][i, k], r["improved"][0][i, k]))
        cexf = lambda m, r=r: dict(kind="stability", S=S, da=da, old=kit.model_array(m, r["old"]), new=kit.model_array(m, r["new"]),
                                   W=kit.model_array(m, r["W"]))
        ob.reach(f"path{pi_}", o.pc)
        stopped_early = r["it"] == 1
        seen.add(stopped_early)
        if stopped_early:
            ob.prove(f"stop=>no-change[path{pi_}]", o.pc, same, cex=cexf, kind="stops before the limit only if no component of any action vector changed")
            ob.prove(f"stop=>reported[path{pi_}]", [], r["reported"], cex=cexf)
        else:
            ob.prove(f"continue=>some-change[path{pi_}]", o.pc, zx.lnot(same), cex=cexf, kind="continues whenever some component changed")
        for i in range(S):
            for k in range(da):
                ob.prove(f"returned-policy-is-latest[path{pi_},{i},{k}]", o.pc, zx.eq(r["pol"][i, k], r["improved"][-1][i, k]), cex=cexf,
                         kind="returned policy is the result of the last improvement step")
    ob.prove("both-outcomes-explored", [], seen == {True, False})
    return ob.result()


def run_greedy(job, ob):
    """after solve(1) the returned policy is the greedy policy of the returned values (real extraction)."""
    S, A, E, da = job["S"], job["A"], job["E"], job["da"]
    cfg = dict(S=S, A=A, E=E, ds=1, da=da, de=1, offset=0, bs=2)
    ex = pathx.Explorer(max_paths=50)
    h = {}

    def run():
        pb = kit.make_tab(cfg, job["seed"])
        solver = kit.make_solver("pi", pb, max_batch_size=2, max_eval_iter=1)
        with symbolic():
            L = h["L"] = kit.Lifted(pb, lift_P=not job.get("linear"))
            pathx.CUR.assume(z3.And(*L.pre))
            OLD = policy_sym(pb, S, da, "OLD")
            solver.policy = OLD
            solver.gamma = lift(Fraction(9, 10)) if job.get("linear") else sym("gamma")
            Ws = []

            def evaluate(policy, starting_values=None):
                # every evaluation call returns its own unconstrained vector: evaluating again after the policy was
                # extracted (or extracting before the last evaluation) shows up as a different term
                Ws.append(sym(f"W{len(Ws)}_", (S,)))
                return Ws[-1]
            solver._evaluate_policy = evaluate
            st = solver.solve(1)
            return dict(vals=val_of(st.values), pol=val_of(st.policy), W=val_of(Ws[0]), Ws=[val_of(w) for w in Ws], g=val_of(solver.gamma)[()],
                        aspace=np.asarray(pb.action_space), old=val_of(OLD))
    with shadowed():
        outs = list(ex.explore(run))
    for pi_, o in enumerate(outs):
        if o.exc is not None:
            from ..harness import exc_origin
            if exc_origin(o.exc) == "harness":
                ob.fail_harness(f"harness raised: {o.exc!r}")
                continue
            ob.fail_harness(f"raised: {o.exc!r}")
            continue
        r = o.value
        L = h["L"]
        Q = kit.q_values(L, r["vals"], r["g"])
        B = [kit.zmax_list(row) for row in Q]
        ob.reach(f"path{pi_}", o.pc)
        for i in range(S):
            if len(r["Ws"]) == 1:
                ob.prove(f"returned-values-are-evaluation[path{pi_},{i}]", o.pc, zx.eq(r["vals"][i], r["W"][i]))
            member, idx = kit.policy_row_index(list(r["pol"][i]), r["aspace"])
            ob.prove(f"returned-policy-greedy[path{pi_},{i}]", o.pc, zx.land(member, zx.eq(kit.lookup(Q[i], idx), B[i])),
                     margin=(kit.lookup(Q[i], idx), B[i], list(np.asarray(L.R, dtype=object).flat) + [x for w in r["Ws"] for x in w], list(np.asarray(L.P, dtype=object).flat) + [r["g"]]),
                     kind="returned policy is greedy with respect to the returned values",
                     cex=lambda m, i=i, r=r: dict(kind="greedy", state=i, cfg=cfg, T=kit.model_array(m, L.T), R=kit.model_array(m, L.R),
                                                  P=kit.model_array(m, L.P), W=kit.model_array(m, r["W"]), Ws=[kit.model_array(m, w) for w in r["Ws"]],
                                                  gamma=zx.model_value(m, r["g"]), old=kit.model_array(m, r["old"])))
    return ob.result()


def run_initial(job, ob):
    S, A, E, da = job["S"], job["A"], job["E"], job["da"]
    cfg = dict(S=S, A=A, E=E, ds=1, da=da, de=1, offset=0, bs=2)
    for with_policy in (True, False):
        ex = pathx.Explorer(max_paths=20)
        h = {}

        def run():
            pb = kit.make_tab(cfg, job["seed"], with_policy=with_policy)
            with symbolic():
                L = h["L"] = kit.Lifted(pb, lift_PI0=with_policy, lift_V0=True)
                pathx.CUR.assume(z3.And(*L.pre))
                solver = kit.make_solver("pi", pb, max_batch_size=2, max_eval_iter=1)
                first = []
                orig = solver._calculate_policy_values

                def calc(p, v):
                    first.append((val_of(p), val_of(v)))
                    raise _Stop()  # only the arguments of the first evaluation call are of interest
                solver._calculate_policy_values = calc
                try:
                    solver.solve(1)
                except _Stop:
                    pass
                return dict(first=first[0], aspace=np.asarray(pb.action_space))
        with shadowed():
            outs = list(ex.explore(run))
        for pi_, o in enumerate(outs):
            if o.exc is not None:
                from ..harness import exc_origin
                if exc_origin(o.exc) == "harness":
                    ob.fail_harness(f"harness raised: {o.exc!r}")
                    continue
                ob.fail_harness(f"raised: {o.exc!r}")
                continue
            r = o.value
            L = h["L"]
            pol, vals = r["first"]
            ob.reach(f"path{pi_}-{with_policy}", o.pc)
            for i in range(S):
                ob.prove(f"first-evaluation-starts-from-initial-values[{with_policy},{i}]", o.pc, zx.eq(vals[i], L.V0[i]))
                if with_policy:
                    for k in range(da):
                        want = kit.lookup([int(x) for x in r["aspace"][:, k]], L.PI0[i])
                        ob.prove(f"first-policy==initial_policy[{i},{k}]", o.pc, zx.eq(pol[i, k], want),
                                 kind="problem-supplied initial policy is the policy evaluated first",
                                 cex=lambda m: dict(kind="initial", with_policy=True, cfg=cfg, PI0=kit.model_array(m, L.PI0)))
                else:
                    # argmax_a sum_e P R (first maximum)
                    rows = []
                    for a in range(A):
                        q = Fraction(0)
                        for e in range(E):
                            q = zx.add(q, zx.mul(L.P[i, a, e], L.R[i, a, e]))
                        rows.append(q)
                    member, idx = kit.policy_row_index(list(pol[i]), r["aspace"])
                    ob.prove(f"first-policy-maximises-immediate-reward[{i}]", o.pc, zx.land(member, zx.eq(kit.lookup(rows, idx), kit.zmax_list(rows))),
                             kind="default first policy maximises immediate expected reward",
                             cex=lambda m: dict(kind="initial", with_policy=False, cfg=cfg, R=kit.model_array(m, L.R), P=kit.model_array(m, L.P),
                                                V0=kit.model_array(m, L.V0), T=kit.model_array(m, L.T)))
    return ob.result()


def finding_key(v):
    return f"{v['job'].get('kind')}:{v['obligation'].split('[')[0]}"


def replay(data):
    c = unq(data["cex"])
    job = data["job"]
    from ..tab import Tab
    k = c.get("kind")
    if k == "step":
        cfg = c["cfg"]
        T = np.array(c["T"], dtype=np.int64)
        R, P, V = (np.array(tofloat(c[x]), dtype=float) for x in ("R", "P", "V"))
        g = float(c["gamma"])
        pb = Tab(cfg["S"], cfg["A"], cfg["E"], da=cfg["da"], offset=cfg["offset"], T=T, R=R, P=P)
        s = kit.make_solver("pi", pb, max_batch_size=cfg["bs"], max_eval_iter=1)
        s.gamma = jnp.asarray(g)
        policy = np.array(c["policy"], dtype=np.int32)
        pv = np.asarray(s._calculate_policy_values(jnp.asarray(policy), jnp.asarray(V)))
        asp = np.asarray(pb.action_space)
        idx = [int(np.where((asp == policy[j]).all(1))[0][0]) for j in range(len(policy))]
        Q = (P * (R + g * V[T])).sum(-1)
        ref = np.array([Q[j, idx[j]] for j in range(len(idx))])
        return bool(not np.allclose(pv, ref, atol=1e-7 * max(1, np.abs(ref).max()))), f"evaluation step {pv} vs T_pi {ref}"
    if k == "evaluate":
        T = np.array(c["T"], dtype=np.int64)
        R, V = (np.array(tofloat(c[x]), dtype=float) for x in ("R", "V"))
        g, e = float(c["gamma"]), float(c["eps"])
        pb = Tab(2, 2, 1, T=T, R=R, V0=V)
        s = kit.make_solver("pi", pb, max_batch_size=2, max_eval_iter=job["mei"], convergence_test=job["test"],
                            reset_values_for_each_policy_eval=job["reset"], gamma=g, epsilon=e)
        policy = np.array(c["policy"], dtype=np.int32)
        res = np.asarray(s._evaluate_policy(jnp.asarray(policy), None if job["reset"] else jnp.asarray(V)))
        P = np.ones((2, 2, 1))
        vp, _ = exact_eval(T, R, P, g, [int(x) for x in policy[:, 0]])
        d = res - vp
        m = np.abs(d).max() if job["test"] == "max_diff" else d.max() - d.min()
        return bool(m > e / g * (1 + 1e-9)), f"evaluate -> {res}; exact V_pi {vp}; deviation {m:.6g} vs eps/gamma {e / g:.6g}"
    if k == "stability":
        S, da = c["S"], c["da"]
        A = 2 if da == 1 else 4
        pb = kit.make_tab(dict(S=S, A=A, E=1, da=da, bs=2), 0)
        s = kit.make_solver("pi", pb, max_batch_size=2, max_eval_iter=1)
        old, new = np.array(c["old"], dtype=np.int32), np.array(c["new"], dtype=np.int32)
        s.policy = jnp.asarray(old)
        W = np.array(tofloat(c["W"]), dtype=float) if c.get("W") is not None else np.zeros(S)
        asp = np.asarray(pb.action_space)
        row = lambda pol: [int(np.where((asp == pol[j]).all(1))[0][0]) for j in range(S)]
        msgs = []
        # Property-level oracle on the real improvement step (no stub for the extraction), two realisations of the
        # counterexample: (a) a problem designed so that the unique greedy policy for W = 0 is the counterexample's improved
        # policy (reward 1 for that action, 0 otherwise); (b) the job's own problem with the counterexample's W.
        # With evaluation result W the solver may stop after the first iteration only if the incumbent policy is already
        # greedy for W, must stop then, and what it returns is greedy for the returned values.
        for label in ("designed", "model-W"):
            if label == "designed":
                Rd = np.zeros((S, A, 1))
                for j, r_ in enumerate(row(new)):
                    Rd[j, r_, 0] = 1.0
                pbx = Tab(S, A, 1, da=da, R=Rd)
                Wx = np.zeros(S)
            else:
                pbx, Wx = pb, W
            sx = kit.make_solver("pi", pbx, max_batch_size=2, max_eval_iter=1)
            sx.policy = jnp.asarray(old)
            sx._evaluate_policy = lambda policy, starting_values=None, Wx=Wx: jnp.asarray(Wx)
            st = sx.solve(2)
            Tidx = np.asarray(jax.vmap(jax.vmap(jax.vmap(pbx.state_to_index)))(pbx.T)).reshape(S, A, 1)
            R, P, g = np.asarray(pbx.R, dtype=float), np.asarray(pbx.P, dtype=float), float(sx.gamma)
            Q = (P * (R + g * Wx[Tidx])).sum(-1)
            tol = kit.REPLAY_RTOL * max(np.abs(R).max(), np.abs(Wx).max(), 1e-300)
            greedy = lambda pol: all(Q[j].max() - Q[j, r_] <= tol for j, r_ in enumerate(row(pol)))
            strictly_worse = lambda pol: any(Q[j].max() - Q[j, r_] > 10 * tol for j, r_ in enumerate(row(pol)))
            ret = np.asarray(st.policy)
            bad = []
            if st.info.iteration == 1 and strictly_worse(old):
                bad.append("stopped although the incumbent policy can be improved")
            if st.info.iteration == 2 and greedy(old) and (np.asarray(sx._extract_policy()) == old).all():
                bad.append("continued although the improvement step changes nothing")
            if not greedy(ret):
                bad.append("returned policy is not greedy for the returned values")
            if bad:
                msgs.append(f"[{label}] incumbent {old.tolist()} improved {new.tolist() if label == 'designed' else '(real extraction)'}: stopped after "
                            f"{st.info.iteration} iteration(s), returned {ret.tolist()}: " + "; ".join(bad))
        return bool(msgs), " | ".join(msgs) or f"incumbent {old.tolist()}: consistent with the property on both realisations"
    if k == "greedy":
        cfg = c["cfg"]
        T = np.array(c["T"], dtype=np.int64)
        R, P, W = (np.array(tofloat(c[x]), dtype=float) for x in ("R", "P", "W"))
        g = float(c["gamma"])
        pb = Tab(cfg["S"], cfg["A"], cfg["E"], da=cfg["da"], T=T, R=R, P=P)
        s = kit.make_solver("pi", pb, max_batch_size=2, max_eval_iter=1)
        s.gamma = jnp.asarray(g)
        if c.get("old") is not None:
            s.policy = jnp.asarray(np.array(c["old"], dtype=np.int32))   # the incumbent policy of the counterexample
        Ws = [np.array(tofloat(w), dtype=float) for w in (c.get("Ws") or [c["W"]])]
        calls = []

        def evaluate(policy, starting_values=None):
            calls.append(1)
            return jnp.asarray(Ws[min(len(calls) - 1, len(Ws) - 1)] + (len(calls) - len(Ws) if len(calls) > len(Ws) else 0.0))
        s._evaluate_policy = evaluate
        st = s.solve(1)
        W = np.asarray(st.values, dtype=float)   # greedy with respect to the *returned* values
        Q = (P * (R + g * W[T])).sum(-1)
        asp = np.asarray(pb.action_space)
        pol = np.asarray(st.policy)
        idx = [int(np.where((asp == pol[j]).all(1))[0][0]) for j in range(len(pol))]
        tol = kit.REPLAY_RTOL * max(np.abs(R).max(), np.abs(W).max(), 1e-300)
        bad = any(abs(Q[j, idx[j]] - Q[j].max()) > tol for j in range(len(idx)))
        return bool(bad), f"returned policy rows {idx}, Q {Q.tolist()}"
    if k == "initial":
        cfg = c["cfg"]
        if c["with_policy"]:
            PI0 = np.array(c["PI0"], dtype=np.int32)
            pb = Tab(cfg["S"], cfg["A"], cfg["E"], da=cfg["da"], PI0=PI0)
            s = kit.make_solver("pi", pb, max_batch_size=2)
            want = np.asarray(pb.action_space)[PI0]
            return bool(not np.array_equal(np.asarray(s.policy), want)), f"initial policy {np.asarray(s.policy).tolist()} vs problem.initial_policy {want.tolist()}"
        R, P = (np.array(tofloat(c[x]), dtype=float) for x in ("R", "P"))
        V0 = np.array(tofloat(c["V0"]), dtype=float) if c.get("V0") is not None else None
        T = np.array(c["T"], dtype=np.int64) if c.get("T") is not None else None
        pb = Tab(cfg["S"], cfg["A"], cfg["E"], da=cfg["da"], R=R, P=P, V0=V0, T=T)
        s = kit.make_solver("pi", pb, max_batch_size=2)
        q = (P * R).sum(-1)
        asp = np.asarray(pb.action_space)
        pol = np.asarray(s.policy)
        idx = [int(np.where((asp == pol[j]).all(1))[0][0]) for j in range(len(pol))]
        bad = any(abs(q[j, idx[j]] - q[j].max()) > 1e-9 for j in range(len(idx)))
        return bool(bad), f"default initial policy rows {idx}; immediate rewards {q.tolist()}"
    return False, "unknown counterexample kind"

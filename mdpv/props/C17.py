"""C17 - explicit matrices describe the same MDP as the functional description."""
from __future__ import annotations

from fractions import Fraction

import jax
import jax.numpy as jnp
import numpy as np
import z3

from .. import kit, pathx, zx
from ..harness import Obligations, tofloat, unq
from ..trace import symbolic, sym, val_of

ID = "C17"
LEVEL = "model_checking"
FUNCTIONS = ["Problem.build_transition_and_reward_matrices (vmapped tables, batch_get_indices, update_probabilities "
             "scatter-add loop, row-sum check, error path, renormalisation)"]
RULE = ("One job per shape (S,A,E, vector dims, probability-as-array); successor table, probabilities, rewards and the "
        "tolerance are symbolic; both host paths (raise / return) are explored; one obligation per matrix entry, per "
        "row, per state for the matrix Bellman backup, and for the error path.")
ASSUMPTIONS = [
    "0 <= tolerance < 1 (with tolerance >= 1 an all-zero probability row is accepted and the row cannot sum to one)",
    "probabilities >= 0 for the row-sum/backup obligations; unconstrained for the entry-wise identities",
    "floats as reals",
]
OUTSIDE = "shapes beyond (3,2,3)/(4,2,2); rounding in the renormalisation"
EXPLANATION = "real matrix builder executed eagerly under the z3-valued trace (scatter-add with symbolic indices)"
JOB_TIMEOUT = {"quick": 1200, "thorough": 3000}


def bounds(tier):
    return {"shapes": _shapes(tier), "T,P,R,tol,V,gamma": "symbolic"}


def _shapes(tier):
    s = [(2, 2, 2, 1, 1, 1, False), (3, 2, 3, 1, 1, 1, False), (2, 2, 1, 1, 1, 1, False), (3, 2, 2, 2, 2, 2, True)]
    if tier == "thorough":
        s += [(4, 2, 2, 1, 1, 1, False), (3, 3, 2, 2, 1, 1, True), (2, 3, 3, 1, 2, 2, False), (3, 2, 3, 2, 1, 2, False)]   # (4,2,3): the error-path argmax obligations time out (180 s each), outside
    return s


def jobs(tier, seed):
    out = [dict(name=f"matrices-S{S}A{A}E{E}-d{ds}{da}{de}-pa{int(pa)}", devices=1, cost=S * S * A * E, seed=seed,
                cfg=dict(S=S, A=A, E=E, ds=ds, da=da, de=de, offset=0, prob_array=pa)) for (S, A, E, ds, da, de, pa) in _shapes(tier)]
    # the builder called a second time on the same problem object, with another (symbolic) tolerance
    out.append(dict(name="second-call-S2A2E2", devices=1, cost=60, seed=seed, second_call=True,
                    cfg=dict(S=2, A=2, E=2, ds=1, da=1, de=1, offset=0, prob_array=False)))
    return out


def run_job(job):
    ob = Obligations(job)
    cfg = job["cfg"]
    S, A, E = cfg["S"], cfg["A"], cfg["E"]
    pb0 = kit.make_tab(cfg, job.get("seed", 0))
    conc = {k: np.asarray(getattr(pb0, k)) for k in ("T", "R", "P")}
    tol, tol1 = z3.Real("tol"), z3.Real("tol1")
    ex = pathx.Explorer(catch=(Exception,))
    holder = {}

    def run():
        pb = kit.make_tab(cfg, job.get("seed", 0))   # a fresh object per explored path
        with symbolic():
            L = kit.Lifted(pb)
            holder["L"] = L
            pathx.CUR.assume(z3.And(*(L.pre + [tol >= 0, tol < 1])))
            from ..trace import lift
            if job.get("second_call"):
                pathx.CUR.assume(z3.And(tol1 >= 0, tol1 < 1))
                try:
                    pb.build_transition_and_reward_matrices(normalization_tolerance=lift(tol1))
                except ValueError:
                    pass
            Pm, Rm = pb.build_transition_and_reward_matrices(normalization_tolerance=lift(tol))
            return val_of(Pm), val_of(Rm)
    paths = {"return": 0, "raise": 0}
    for o in ex.explore(run):
        L = holder["L"]
        pc = o.pc
        rowsum = {(a, s): zx.Z(sum_(L.P[s, a, e] for e in range(E))) for a in range(A) for s in range(S)}
        devs = [zx.sabs(zx.sub(rowsum[(a, s)], 1)) for a in range(A) for s in range(S)]
        mx = kit.zmax_list(devs)

        def cexf(m, extra=None):
            d = dict(cfg=cfg, T=kit.model_array(m, L.T), R=kit.model_array(m, L.R), P=kit.model_array(m, L.P),
                     tol=zx.model_value(m, tol))
            if job.get("second_call"):
                d["tol1"] = zx.model_value(m, tol1)
            d.update(extra or {})
            return d
        if o.exc is not None:
            from ..harness import exc_origin
            if exc_origin(o.exc) == "harness":
                ob.fail_harness(f"harness raised: {o.exc!r}")
                continue
            paths["raise"] += 1
            ob.reach("raise-path", pc)
            ob.prove("raise=>ValueError", [], isinstance(o.exc, ValueError), cex=lambda m: dict(kind="exc", exc=repr(o.exc)))
            ob.prove("raise=>deviation>tol", pc, zx.Z(mx) > tol, cex=lambda m: cexf(m, dict(kind="raise_unjustified")))
            fm = o.notes.get("formatted", [])
            named = [v for spec, v in fm if v.shape == () and zx.is_int_like(v[()])]
            ok = len(named) >= 2
            ob.prove("message-names-a-pair", [], ok, cex=lambda m: dict(kind="exc", exc=str(o.exc)))
            if ok:
                st, ac = named[0][()], named[1][()]
                ob.prove("named-pair-in-range", pc, zx.land(zx.land(zx.ge(st, 0), zx.lt(st, S)),
                                                           zx.land(zx.ge(ac, 0), zx.lt(ac, A))),
                         cex=lambda m: cexf(m, dict(kind="named_pair")))
                for a in range(A):
                    for s_ in range(S):
                        d = zx.sabs(zx.sub(rowsum[(a, s_)], 1))
                        ob.prove(f"named-pair-is-worst[{a},{s_}]", pc + [zx.Z(st) == s_, zx.Z(ac) == a], zx.eq(d, mx),
                                 cex=lambda m: cexf(m, dict(kind="named_pair")), kind="pair named in the error is an argmax of the deviation")
            continue
        paths["return"] += 1
        Pm, Rm = o.value
        ob.reach("return-path", pc)
        ob.prove("return=>deviation<=tol", pc, zx.Z(mx) <= tol, cex=lambda m: cexf(m, dict(kind="accepted_bad")))
        ob.prove("shapes", [], Pm.shape == (A, S, S) and Rm.shape == (S, A))
        for a in range(A):
            for s in range(S):
                rs = rowsum[(a, s)]
                for s2 in range(S):
                    num = sum_(zx.ite(zx.eq(L.T[s, a, e], s2), L.P[s, a, e], Fraction(0)) for e in range(E))
                    ob.prove(f"P[{a},{s},{s2}]", pc + [rs > 0], zx.Z(Pm[a, s, s2]) == zx.Z(num) / rs, kind="P entry == mass/rowsum",
                             cex=lambda m, a=a, s=s, s2=s2: cexf(m, dict(kind="P", a=a, s=s, s2=s2)))
                ob.prove(f"R[{s},{a}]", pc, zx.eq(Rm[s, a], sum_(zx.mul(L.P[s, a, e], L.R[s, a, e]) for e in range(E))),
                         kind="R entry == expected reward", cex=lambda m, a=a, s=s: cexf(m, dict(kind="R", a=a, s=s)))
                ob.prove(f"rowsum[{a},{s}]", pc + L.prob_constraints_ge0(), zx.eq(sum_(Pm[a, s, s2] for s2 in range(S)), 1),
                         kind="row sums to one", cex=lambda m, a=a, s=s: cexf(m, dict(kind="rowsum", a=a, s=s)))
        # matrix Bellman backup == functional backup when the probabilities are a distribution
        V = [z3.Real(f"V_{i}") for i in range(S)]
        g = z3.Real("gamma")
        dist = L.prob_constraints()
        Qf = kit.q_values(L, V, g)
        for s in range(S):
            for a in range(A):
                q = Rm[s, a]
                for s2 in range(S):
                    q = zx.add(q, zx.mul(g, zx.mul(Pm[a, s, s2], V[s2])))
                # equality of every state-action value implies equality of the max over actions (the backup)
                ob.prove(f"matrix-Q[{s},{a}]", pc + dist, zx.eq(q, Qf[s][a]), kind="matrix state-action value == functional one",
                         cex=lambda m, s=s, a=a: cexf(m, dict(kind="backup", s=s, a=a, V=[zx.model_value(m, v) for v in V],
                                                              gamma=zx.model_value(m, g))))
    ob.prove("both-host-paths-explored", [], paths["return"] >= 1 and paths["raise"] >= 1)
    ob.extra["paths"] = paths["return"] + paths["raise"]
    # E7b: concrete differential
    for k in ("T", "R", "P"):
        setattr(pb0, k, jnp.asarray(conc[k]))
    jax.clear_caches()
    ref_P, ref_R = numpy_matrices(pb0)
    conc_cex = dict(cfg=cfg, T=np.asarray(jax.vmap(jax.vmap(jax.vmap(pb0.state_to_index)))(pb0.T)), R=conc["R"], P=conc["P"], tol=1e-4,
                    kind="concrete")
    try:
        Pc, Rc = pb0.build_transition_and_reward_matrices()
        agree = np.allclose(Pc, ref_P, atol=1e-12) and np.allclose(Rc, ref_R, atol=1e-12)
    except Exception:
        agree = False
    # a disagreement on concrete tables is reported like any counterexample (and replayed)
    ob.prove("concrete-differential", [], bool(agree), cex=lambda m: conc_cex, kind="real builder == numpy accumulation on concrete tables")
    ob.extra["differential_runs"] = 1
    return ob.result()


def sum_(it):
    r = Fraction(0)
    for x in it:
        r = zx.add(r, x)
    return r


def numpy_matrices(pb):
    from .C02 import concrete_tables
    T, R, P = concrete_tables(pb)
    S, A, E = T.shape
    Pm = np.zeros((A, S, S))
    for s in range(S):
        for a in range(A):
            for e in range(E):
                Pm[a, s, T[s, a, e]] += P[s, a, e]
    rs = Pm.sum(-1, keepdims=True)
    return Pm / np.where(rs > 0, rs, 1.0), (P * R).sum(-1)


def finding_key(v):
    return v["obligation"].split("[")[0]


def replay(data):
    c = unq(data["cex"])
    if c.get("kind") == "exc":
        return True, f"error path: {c.get('exc')}"
    cfg = c["cfg"]
    from ..tab import Tab
    T = np.array(c["T"], dtype=np.int64)
    R = np.array(tofloat(c["R"]), dtype=float)
    P = np.array(tofloat(c["P"]), dtype=float)
    tol = float(c["tol"])
    pb = Tab(cfg["S"], cfg["A"], cfg["E"], ds=cfg["ds"], da=cfg["da"], de=cfg["de"], offset=cfg["offset"],
             prob_array=cfg["prob_array"], T=T, R=R, P=P)
    S, A, E = T.shape
    raw = np.zeros((A, S, S))
    for s in range(S):
        for a in range(A):
            for e in range(E):
                raw[a, s, T[s, a, e]] += P[s, a, e]
    dev = np.abs(raw.sum(-1) - 1.0)
    should_raise = dev.max() > tol
    if c.get("tol1") is not None:
        try:   # the call that preceded the one under test, on the same object
            pb.build_transition_and_reward_matrices(normalization_tolerance=float(c["tol1"]))
        except ValueError:
            pass
    try:
        Pm, Rm = pb.build_transition_and_reward_matrices(normalization_tolerance=tol)
        raised = None
    except ValueError as e:
        raised = str(e)
    except Exception as e:  # wrong exception type
        return True, f"raised {type(e).__name__}: {e}"
    margin = abs(dev.max() - tol) > 1e-9
    if (raised is not None) != should_raise and margin:
        return True, f"max deviation {dev.max()} tol {tol}: raised={raised is not None}"
    if raised is not None:
        a, s = np.unravel_index(np.argmax(dev), dev.shape)
        ok = f"state {s}, action {a}" in raised or dev[a, s] - np.sort(dev.ravel())[-2] < 1e-9
        return (not ok), f"error message: {raised[:120]} (worst pair: state {s}, action {a})"
    rs = raw.sum(-1, keepdims=True)
    refP = raw / np.where(rs > 0, rs, 1.0)
    refR = (P * R).sum(-1)
    bad = not (np.allclose(Pm, refP, atol=1e-7) and np.allclose(Rm, refR, atol=1e-7))
    return bool(bad), f"P max err {np.abs(np.asarray(Pm) - refP).max():.3g}, R max err {np.abs(np.asarray(Rm) - refR).max():.3g}"
